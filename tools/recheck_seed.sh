#!/bin/bash
# recheck_seed.sh <seeded-dir>: on a scratch copy of /repo HEAD: demo passes; with patch: 388 tests pass, demo fails
D=$(readlink -f "$1"); SCR=$(mktemp -d /tmp/vfseed.XXXXXX)
git -C /repo archive HEAD | tar -x -C $SCR
cd $SCR
timeout 120 /venv/bin/python $D/demo.py >/dev/null 2>&1; rc_clean=$?
if ! patch -p1 -s --dry-run < $D/patch.diff >/dev/null 2>&1; then echo "$(basename $D): PATCH DOES NOT APPLY"; cd /; rm -rf $SCR; exit 3; fi
patch -p1 -s < $D/patch.diff
tests=$(timeout 600 /venv/bin/python -m pytest -q -p no:cacheprovider unittests 2>&1 | tail -1)
timeout 120 /venv/bin/python $D/demo.py >/dev/null 2>&1; rc_patched=$?
cd /; rm -rf $SCR
ok=BAD; [ $rc_clean -eq 0 ] && [ $rc_patched -ne 0 ] && echo "$tests" | grep -q "388 passed" && ok=OK
echo "$(basename $D): $ok clean=$rc_clean patched=$rc_patched tests='$tests'"
