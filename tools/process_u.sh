#!/bin/bash
# process_u.sh <Uxx> <checks...>: verify the three area-based seeds of a round-7 agent, store them as seeded/<Uxx>_<k>,
# run the given quick checks against each (scratch copy of /repo, never /repo itself)
ID=$1; shift; WT=/tmp/wt/$ID; OUT=/tmp/wtout/$ID
for K in 1 2 3; do  # (rounds with two changes per agent simply have no patch3)
  [ -f $OUT/patch$K.diff ] || { echo "$ID/$K: no patch"; continue; }
  cd $WT && git checkout -q -- .
  if ! git apply --check $OUT/patch$K.diff 2>/dev/null; then echo "$ID/$K: patch does not apply"; continue; fi
  timeout 180 /venv/bin/python $OUT/demo$K.py >/dev/null 2>&1; rc_clean=$?
  git apply $OUT/patch$K.diff
  tests=$(timeout 600 /venv/bin/python -m pytest -q -p no:cacheprovider unittests 2>&1 | tail -1)
  timeout 180 /venv/bin/python $OUT/demo$K.py >/dev/null 2>&1; rc_patched=$?
  git checkout -q -- .
  echo "$ID/$K: clean=$rc_clean patched=$rc_patched tests='$tests'"
  if [ $rc_clean -eq 0 ] && [ $rc_patched -ne 0 ] && echo "$tests" | grep -q "388 passed"; then
    D=/verif/seeded/${ID}_$K; mkdir -p $D
    cp $OUT/patch$K.diff $D/patch.diff; cp $OUT/demo$K.py $D/demo.py; cp $OUT/notes$K.md $D/notes.md 2>/dev/null
    python3 - "$ID" "$K" "$tests" <<PY
import json,sys
ID,K,tests=sys.argv[1:4]
json.dump({"property":"(area-based seed: see notes.md for the property it breaks)","area":ID,
 "author":"independent sub-agent (round 7+) given the property texts, one source area, the one-line summaries of all earlier seeded changes and a scratch worktree",
 "confirmed":{"unchanged_worktree_demo_exit":0,"patched_demo_exit":"non-zero","patched_unit_tests":tests},
 "detected_by":None}, open(f"/verif/seeded/{ID}_{K}/meta.json","w"), indent=1)
PY
    /verif/tools/run_mutant.sh $OUT/patch$K.diff "$@" | grep -v "rc=0"
    echo "  ($ID/$K done)"
  else
    echo "  NOT CONFIRMED"
  fi
done
