#!/bin/bash
# verify_seed.sh <ID> <k>: confirm a sub-agent's seeded change in its scratch worktree /tmp/wt/<ID>
# (demo OK unpatched; with patch: 388 unit tests pass and demo fails), then store it under /verif/seeded/<ID>_<k>/
ID=$1; K=$2; WT=/tmp/wt/$ID; OUT=/tmp/wtout/$ID
PROP=${ID:0:3}; IDX=$K; [ "${ID:3}" = "b" ] && IDX=$((K+2)); [ "${ID:3}" = "c" ] && IDX=$((K+4)); [ "${ID:3}" = "e" ] && IDX=$((K+4)); [ "${ID:3}" = "f" ] && IDX=$((K+6)); [ "${ID:3}" = "g" ] && IDX=$((K+8)); [ "${ID:3}" = "h" ] && IDX=$((K+10)); [ "${ID:3}" = "i" ] && IDX=$((K+12)); [ "${ID:3}" = "j" ] && IDX=$((K+14))
cd $WT || exit 2
git checkout -q -- . 
if ! git apply --check $OUT/patch$K.diff 2>/dev/null; then echo "$ID/$K: patch does not apply"; exit 1; fi
timeout 120 /venv/bin/python $OUT/demo$K.py >/tmp/wtout/$ID/run_clean$K.log 2>&1; rc_clean=$?
git apply $OUT/patch$K.diff
tests=$(timeout 600 /venv/bin/python -m pytest -q -p no:cacheprovider unittests 2>&1 | tail -1)
timeout 120 /venv/bin/python $OUT/demo$K.py >/tmp/wtout/$ID/run_patched$K.log 2>&1; rc_patched=$?
git checkout -q -- .
echo "$ID/$K: clean_demo_rc=$rc_clean patched_demo_rc=$rc_patched tests='$tests'"
if [ $rc_clean -eq 0 ] && [ $rc_patched -ne 0 ] && echo "$tests" | grep -q "388 passed"; then
  D=/verif/seeded/${PROP}_$IDX; mkdir -p $D
  cp $OUT/patch$K.diff $D/patch.diff; cp $OUT/demo$K.py $D/demo.py; cp $OUT/notes$K.md $D/notes.md 2>/dev/null
  python3 - "$PROP" "$IDX" "$tests" <<PY
import json,sys
ID,K,tests=sys.argv[1:4]
json.dump({"property":ID,"breaks":ID,"author":"independent sub-agent given only the property text and a scratch worktree",
 "needs_to_manifest":"see notes.md",
 "confirmed":{"unchanged_worktree_demo_exit":0,"patched_demo_exit":"non-zero","patched_unit_tests":tests,
   "commands":["cd <worktree> && /venv/bin/python demo.py","git apply patch.diff","/venv/bin/python -m pytest -q -p no:cacheprovider unittests"]},
 "detected_by":None}, open(f"/verif/seeded/{ID}_{K}/meta.json","w"), indent=1)
PY
  echo "  stored $D"
else
  echo "  NOT CONFIRMED"
fi
