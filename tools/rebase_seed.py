#!/usr/bin/env python3
"""resolve.py <patch>...: rebase a seeded patch onto /repo HEAD (worktree /tmp/rebase), resolving conflicts by taking
the seeded side and re-applying the later repo fixes to it token-wise; verify demo/tests; overwrite the patch."""
import re, subprocess, sys, os
WT = "/tmp/rebase"
def sh(cmd, **kw):
    return subprocess.run(cmd, shell=True, cwd=WT, capture_output=True, text=True, **kw)
def refix(text, ours):
    t = text
    t = re.sub(r"isinstance\(([^()]+?), Awaitable\)", r"isawaitable(\1)", t)
    t = re.sub(r"isinstance\(([^()]+?), ACloseable\)", r'hasattr(\1, "aclose")', t)
    if "isawaitable" in ours and re.search(r"^from inspect import", ours, re.M):
        t = re.sub(r"^from inspect import (.*)$", lambda m: m.group(0) if "isawaitable" in m.group(1) else f"from inspect import {m.group(1)}, isawaitable", t, flags=re.M)
    if "(self, /, " in ours:
        # repo fixes 82ebe23 / 9f1a290: the instance (and callback) parameters became positional-only
        t = re.sub(r"def __call__\(self, \*args", "def __call__(self, /, *args", t)
        t = re.sub(r"def cache_discard\(self, \*args", "def cache_discard(self, /, *args", t)
        t = re.sub(r"def callback\(self, callback: C, \*args", "def callback(self, callback: C, /, *args", t)
    if "return await self._peer.__anext__()" in ours:
        # repo fix 7a2b048: TeePeer.__anext__ became a coroutine function
        t = t.replace("def __anext__(self) -> Awaitable[T]:", "async def __anext__(self) -> T:")
        t = t.replace("return self._peer.__anext__()", "return await self._peer.__anext__()")
        t = re.sub(r"return _await_value\((.*)\)", r"return \1", t)
        if "async def __anext__" not in t and "async def __anext__" in ours and "def __anext__" not in t:
            pass
    if "async with ScopedIter(iterable) as iterator:" in ours and "async with ScopedIter(iterable) as iterator:" not in t:
        # repo fix 0b95e79: any_iter scopes its async source
        def scope(m):
            ind, body = m.group(1), m.group(2)
            body = "".join("    " + line if line.strip() else line for line in body.splitlines(True))
            return (f"{ind}async with ScopedIter(iterable) as iterator:\n{ind}    async for item in iterator:\n" + body)
        t = re.sub(r"^( +)async for item in iterable:\n((?:\1 +.*\n)+)", scope, t, count=1, flags=re.M)
    if "from ._core import aiter, ScopedIter" in ours:
        t = re.sub(r"^from \._core import (?!.*ScopedIter)(.*)$", r"from ._core import \1, ScopedIter", t, flags=re.M)
    if "del peer_buffer, item" in ours:
        # repo fix 8feff75: the fetching tee peer drops its own reference to the item
        t = re.sub(r"del peer_buffer\n", "del peer_buffer, item\n", t)
    if "not (self._target_key == state.current_key)" in ours:
        # repo fix b69fc4c: a group ends where its key is no longer EQUAL
        t = t.replace("self._target_key != state.current_key", "not (self._target_key == state.current_key)")
    if "is not sentinel and value != sentinel" in ours:
        t = re.sub(r"\b(value) != ((?:self\._)?sentinel)\b", r"\1 is not \2 and \1 != \2", t)
    return t
for patch in sys.argv[1:]:
    sh("git reset -q --hard HEAD")
    r = sh(f"git apply --3way {patch}")
    files = [l[3:] for l in sh("git status --short").stdout.splitlines() if l.startswith("UU")]
    for f in files:
        src = open(os.path.join(WT, f)).read()
        def rep(m):
            return refix(m.group(2), m.group(1))
        new = re.sub(r"<<<<<<< ours\n(.*?)=======\n(.*?)>>>>>>> theirs\n", rep, src, flags=re.S)
        open(os.path.join(WT, f), "w").write(new)
    sh("git reset -q")
    # the non-conflicting parts of a file may still use names the fixes removed from the imports
    for f in ("asyncstdlib/itertools.py", "asyncstdlib/heapq.py"):
        txt = open(os.path.join(WT, f)).read()
        if "ACloseable" in txt.split("from ._typing import", 1)[1].split("\n", 1)[1] and "ACloseable" not in txt.split("from ._typing import", 1)[1].split("\n", 1)[0]:
            txt = txt.replace("from ._typing import ", "from ._typing import ACloseable, ", 1)
            open(os.path.join(WT, f), "w").write(txt)
    f = "asyncstdlib/asynctools.py"
    txt = open(os.path.join(WT, f)).read()
    if "ScopedIter(" in txt and "import aiter, ScopedIter" not in txt and "from ._core import aiter\n" in txt:
        open(os.path.join(WT, f), "w").write(txt.replace("from ._core import aiter\n", "from ._core import aiter, ScopedIter\n", 1))
    diff = sh("git diff HEAD").stdout
    comp = sh("/venv/bin/python -m compileall -q asyncstdlib")
    tests = sh("/venv/bin/python -m pytest -q -p no:cacheprovider unittests 2>&1 | tail -1").stdout.strip()
    demo = os.path.join(os.path.dirname(patch), "demo.py")
    drc = None
    if os.path.exists(demo):
        drc = sh(f"timeout 180 /venv/bin/python {demo}").returncode
    ok = bool(diff) and comp.returncode == 0 and "388 passed" in tests and (drc is None or drc != 0)
    print(("OK  " if ok else "BAD ") + patch, f"files={files} tests='{tests}' demo_rc={drc}")
    if ok:
        open(patch, "w").write(diff)
sh("git reset -q --hard HEAD")
