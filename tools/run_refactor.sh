#!/bin/bash
# run_refactor.sh <dir-with-modified-repo>: run all 20 quick checks against a modified copy; print the non-quiet ones
REPO=$(readlink -f "$1"); OUT=$(mktemp -d /tmp/vfref.XXXXXX)
for n in 01 02 03 04 05 06 07 08 09 10 11 12 13 14 15 16 17 18 19 20; do
  P=C$n
  out=$(cd /verif && VERIF_REPO=$REPO VERIF_EVIDENCE_DIR=$OUT/ev VERIF_REPLAY_DIR=$OUT/rp ./check $P quick 2>&1); rc=$?
  if [ $rc -ne 0 ]; then echo "== $P rc=$rc"; echo "$out" | grep -E "bucket=|HARNESS|Error" | cut -c1-400 | head -6; fi
done
echo "done $(basename $REPO) (replays in $OUT/rp)"
