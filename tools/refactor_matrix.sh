#!/bin/bash
# refactor_matrix.sh: apply every behaviour-preserving refactoring under /verif/refactorings to a scratch copy of
# /repo HEAD and run all 20 quick checks; every check must stay quiet (exit 0).  Prints one line per refactoring.
# the checks run from a copy of the COMMITTED /verif, so that edits in progress cannot disturb a run
SNAP=$(mktemp -d /tmp/vfsnap.XXXXXX); git -C /verif archive HEAD | tar -x -C $SNAP
[ -d /verif/.deps ] && ln -s /verif/.deps $SNAP/.deps
for d in /verif/refactorings/R*; do
  SCR=$(mktemp -d /tmp/vfrf.XXXXXX); mkdir -p $SCR/repo
  git -C /repo archive HEAD | tar -x -C $SCR/repo
  if ! (cd $SCR/repo && patch -p1 -s < $d/patch.diff >/dev/null 2>&1); then echo "$(basename $d): patch does not apply"; rm -rf $SCR; continue; fi
  tests=$(cd $SCR/repo && timeout 600 /venv/bin/python -m pytest -q -p no:cacheprovider unittests 2>&1 | tail -1)
  loud=""
  for n in 01 02 03 04 05 06 07 08 09 10 11 12 13 14 15 16 17 18 19 20; do
    (cd $SNAP && VERIF_REPO=$SCR/repo VERIF_EVIDENCE_DIR=$SCR/ev VERIF_REPLAY_DIR=$SCR/rp ./check C$n quick >/dev/null 2>&1) || loud="$loud C$n"
  done
  echo "$(basename $d): unit tests '$tests'; checks raising an alarm:${loud:- none}"
  rm -rf $SCR
done
rm -rf $SNAP
