#!/usr/bin/env python3
"""Run the quick checks against every seeded change / mutant and record who detects what.

usage: tools/seed_matrix.py [--all-checks] [--jobs N] [dir-or-patch ...]
Writes seeded/MATRIX.json and fills meta.json 'detected_by' of each seeded directory.
Each patch is applied to a scratch copy of /repo's working tree (outside /repo and /verif);
the checks run with VERIF_REPO pointing at it; the copy is removed afterwards.
"""
import concurrent.futures, json, os, re, subprocess, sys, tempfile, shutil, glob

VERIF = os.path.dirname(os.path.dirname(os.path.abspath(__file__)))
ALL = [f"C{i:02d}" for i in range(1, 21)]
RELATED = {
    "C01": ["C01", "C05", "C09", "C04"], "C02": ["C02", "C03"], "C03": ["C03", "C01", "C02", "C06", "C10"], "C04": ["C04", "C18", "C19"], "C05": ["C05", "C01", "C09", "C16"],
    "C06": ["C06"], "C07": ["C07"], "C08": ["C08", "C07"], "C09": ["C09", "C04", "C20"], "C10": ["C10"],
    "C11": ["C11", "C18", "C17", "C10"], "C12": ["C12", "C18"], "C13": ["C13", "C15"], "C14": ["C14", "C18"], "C15": ["C15", "C13"],
    "C16": ["C16", "C06"], "C17": ["C17"], "C18": ["C18", "C04", "C12", "C01"], "C19": ["C19"], "C20": ["C20", "C09"],
}


AREA = {  # area-based rounds (S / T / U + two digits): the checks that look at that source area
    "01": ["C01", "C05", "C06", "C04", "C18"], "02": ["C02", "C03", "C06", "C04"],
    "03": ["C01", "C05", "C06", "C04", "C08"], "04": ["C01", "C04", "C09", "C20", "C18", "C06", "C05"],
    "05": ["C16", "C06", "C04", "C18", "C17", "C20", "C05"], "06": ["C01", "C02", "C05", "C06", "C04", "C20", "C03"],
    "07": ["C10", "C11"], "08": ["C12", "C02", "C06", "C20", "C03"], "09": ["C13", "C14", "C15", "C03", "C17"],
    "10": ["C07", "C08", "C19", "C03", "C06", "C05", "C04", "C18"],
}


def run_one(patch, props, jobs):
    scr = tempfile.mkdtemp(prefix="vfmx.", dir="/tmp")
    try:
        repo = os.path.join(scr, "repo")
        os.makedirs(repo)
        subprocess.run(f"git -C /repo archive HEAD | tar -x -C {repo}", shell=True, check=True)
        subprocess.run(f"cd /repo && git diff HEAD | (cd {repo} && patch -p1 -s)", shell=True)
        if subprocess.run(f"cd {repo} && patch -p1 -s --dry-run < {patch}", shell=True,
                          capture_output=True).returncode:
            return {"error": "patch does not apply"}
        subprocess.run(f"cd {repo} && patch -p1 -s < {patch}", shell=True, check=True)
        out = {}
        for p in props:
            env = dict(os.environ, VERIF_REPO=repo, VERIF_EVIDENCE_DIR=os.path.join(scr, "ev"),
                       VERIF_REPLAY_DIR=os.path.join(scr, "rp"), VERIF_JOBS=str(jobs), VERIF_TIMEOUT="900")
            r = subprocess.run(["./check", p, "quick"], cwd=VERIF_RUN, env=env, capture_output=True, text=True)
            buckets = sorted(set(re.findall(r"bucket=(\S+)", r.stdout)))[:4]
            out[p] = {"rc": r.returncode, "buckets": buckets}
        return out
    finally:
        shutil.rmtree(scr, ignore_errors=True)


def snapshot():
    """run the checks from a copy of the COMMITTED /verif so that edits in progress cannot disturb a run"""
    global VERIF_RUN
    snap = tempfile.mkdtemp(prefix="vfsnap.", dir="/tmp")
    subprocess.run(f"git -C {VERIF} archive HEAD | tar -x -C {snap}", shell=True, check=True)
    VERIF_RUN = snap
    return snap


VERIF_RUN = VERIF


def main():
    args = sys.argv[1:]
    snap = snapshot() if "--live" not in args else None
    try:
        _main(args)
    finally:
        if snap:
            shutil.rmtree(snap, ignore_errors=True)


def _main(args):
    all_checks = "--all-checks" in args
    previous = "--previous" in args  # only the checks that detected the change in the recorded matrix
    jobs = 4
    if "--jobs" in args:
        jobs = int(args[args.index("--jobs") + 1])
    targets = [a for a in args if not a.startswith("--") and not a.isdigit() and not re.fullmatch(r"C\d\d(,C\d\d)*", a)]
    if not targets:
        targets = sorted(glob.glob(os.path.join(VERIF, "seeded", "C*"))) + sorted(glob.glob(os.path.join(VERIF, "mutants", "*.patch")))
    work = []
    for t in targets:
        if os.path.isdir(t):
            patch, name = os.path.join(t, "patch.diff"), os.path.basename(t)
            prop = name.split("_")[0]
        else:
            patch, name, prop = t, os.path.basename(t), None
            m = re.match(r"hand_(C\d\d)_", name)
            if m:
                prop = m.group(1)
            m = re.match(r"unfix_([0-9a-f]+)\.patch", name)
            if m:
                known = json.load(open(os.path.join(VERIF, "known_findings.json")))
                prop = next((f["property"] for f in known["fixed"] if f["commit"] == m.group(1)), None)
        if prop and re.fullmatch(r"[STUVWXY]\d\d", prop) and not all_checks:
            props = AREA[prop[1:]]
        else:
            props = ALL if (all_checks or prop is None) else RELATED.get(prop, [prop])
        if "--checks" in args:
            props = args[args.index("--checks") + 1].split(",")
        if previous:
            recorded = json.load(open(os.path.join(VERIF, "seeded", "MATRIX.json"))).get(name, {})
            props = sorted(p for p, v in recorded.items() if isinstance(v, dict) and v.get("rc") == 1) or props
        work.append((name, os.path.abspath(patch), props, t))
    # VF_MATRIX_FILE: write somewhere else (and leave the meta.json files alone) - used for runs at other seeds
    matrix_path = os.environ.get("VF_MATRIX_FILE") or os.path.join(VERIF, "seeded", "MATRIX.json")
    matrix = json.load(open(matrix_path)) if os.path.exists(matrix_path) else {}
    with concurrent.futures.ThreadPoolExecutor(4) as pool:
        futs = {pool.submit(run_one, patch, props, jobs): (name, t) for name, patch, props, t in work}
        for fut in concurrent.futures.as_completed(futs):
            name, t = futs[fut]
            res = fut.result()
            matrix.setdefault(name, {}).update(res)
            detected = sorted(p for p, v in res.items() if isinstance(v, dict) and v.get("rc") == 1)
            print(name, "detected by", detected, {p: v for p, v in res.items() if isinstance(v, dict) and v.get("rc") not in (0, 1)} or "", flush=True)
            meta = os.path.join(t, "meta.json") if os.path.isdir(t) and not os.environ.get("VF_MATRIX_FILE") else None
            if meta and os.path.exists(meta):
                m = json.load(open(meta))
                prev = set(m.get("detected_by") or [])
                m["detected_by"] = sorted(prev | set(detected))
                m["detection_detail"] = {p: v["buckets"] for p, v in matrix[name].items() if isinstance(v, dict) and v.get("rc") == 1}
                json.dump(m, open(meta, "w"), indent=1)
            json.dump(matrix, open(matrix_path, "w"), indent=1, sort_keys=True)


if __name__ == "__main__":
    main()
