#!/usr/bin/env python3
"""Print the one-line sizes of the evidence files (for DESIGN.md section 9)."""
import json, glob, os
HERE = os.path.dirname(os.path.dirname(os.path.abspath(__file__)))
out = []
for f in sorted(glob.glob(os.path.join(HERE, "evidence", "C*.json"))):
    d = json.load(open(f))
    c = d["coverage"]
    cg = c.get("coverage_guided")
    extra = f" (+{cg['cases']} coverage-guided)" if isinstance(cg, dict) else ""
    out.append(f"{d['property_id']} {d['tier']} {c['evaluations']} cases, {c['distinct_nontrivial']} non-trivial, "
               f"{len(c['shards'])} shards{extra}, {d['wall_s']} s")
print("\n".join(out))
