#!/usr/bin/env python3
"""Replace the generated tables of DESIGN.md section 10 (seeded changes, mutants) by the output of matrix_table.py."""
import os, subprocess, sys
VERIF = os.path.dirname(os.path.dirname(os.path.abspath(__file__)))
table = subprocess.run([sys.executable, os.path.join(VERIF, "tools", "matrix_table.py")], capture_output=True, text=True,
                       check=True).stdout.rstrip("\n").split("\n")
path = os.path.join(VERIF, "DESIGN.md")
lines = open(path).read().split("\n")
start = next(i for i, l in enumerate(lines) if l.startswith("| Seeded change | What it does | Caught by |"))
m = next(i for i, l in enumerate(lines) if i > start and l.startswith("| Mutant | Unit tests | Caught by |"))
end = next(i for i in range(m, len(lines)) if not lines[i].startswith("|"))
lines[start:end] = table
open(path, "w").write("\n".join(lines))
print(f"replaced lines {start + 1}-{end} by {len(table)} lines")
