#!/bin/bash
# process_round.sh <IDb> <related props...>: verify both seeds of a round-2 agent and run the related checks
ID=$1; shift
for k in 1 2; do
  /verif/tools/verify_seed.sh $ID $k
  /verif/tools/run_mutant.sh /tmp/wtout/$ID/patch$k.diff "$@"
done
