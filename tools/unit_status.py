#!/usr/bin/env python3
"""For every mutants/*.patch: does the repository's own unit-test suite still pass with it applied?
Writes mutants/UNIT_STATUS.json  {patch: "388 passed" | "<n> failed ..."}"""
import glob, json, os, shutil, subprocess, tempfile
VERIF = os.path.dirname(os.path.dirname(os.path.abspath(__file__)))
out = {}
for patch in sorted(glob.glob(os.path.join(VERIF, "mutants", "*.patch"))):
    scr = tempfile.mkdtemp(prefix="vfus.", dir="/tmp")
    try:
        subprocess.run(f"git -C /repo archive HEAD | tar -x -C {scr}", shell=True, check=True)
        if subprocess.run(f"patch -p1 -s < {patch}", shell=True, cwd=scr, capture_output=True).returncode:
            out[os.path.basename(patch)] = "patch does not apply"
            continue
        r = subprocess.run("timeout 600 /venv/bin/python -m pytest -q -p no:cacheprovider unittests 2>&1 | tail -1",
                           shell=True, cwd=scr, capture_output=True, text=True)
        out[os.path.basename(patch)] = r.stdout.strip()
    finally:
        shutil.rmtree(scr, ignore_errors=True)
    print(os.path.basename(patch), out[os.path.basename(patch)], flush=True)
json.dump(out, open(os.path.join(VERIF, "mutants", "UNIT_STATUS.json"), "w"), indent=1)
