#!/usr/bin/env python3
"""Line/branch coverage of /repo/asyncstdlib under the quick checks (in-process, small example counts).
Not a check: a generator-health instrument.  usage: tools/coverage_probe.py [examples-per-shard]"""
import os, sys, importlib, warnings
VERIF = os.path.dirname(os.path.dirname(os.path.abspath(__file__)))
sys.path.insert(0, VERIF)
os.environ.setdefault("PYTHONHASHSEED", "0")
import coverage
n = int(sys.argv[1]) if len(sys.argv) > 1 else 60
cov = coverage.Coverage(source=["/repo/asyncstdlib"], branch=True, data_file=None)
cov.start()
from vf import env
env.setup()
from vf.runner import Violation
from hypothesis import given, settings, HealthCheck, seed
warnings.filterwarnings("ignore")
sys.unraisablehook = lambda a: None
for i in range(1, 21):
    mod = importlib.import_module(f"vf.props.c{i:02d}")
    for shard in mod.shards("quick"):
        if shard.name.startswith("no-asyncio"):
            continue
        try:
            if shard.cases is not None:
                for k, case in enumerate(shard.cases()):
                    if k >= n * 3:
                        break
                    shard.check(case)
            else:
                @seed(1)
                @settings(max_examples=n, database=None, deadline=None, suppress_health_check=list(HealthCheck))
                @given(shard.strategy)
                def t(case):
                    shard.check(case)
                t()
        except Violation as v:
            print("violation?!", mod.PROPERTY, shard.name, v.bucket)
        except Exception as e:
            print("error", mod.PROPERTY, shard.name, repr(e)[:100])
cov.stop()
cov.report(show_missing=True, skip_empty=True)
