#!/usr/bin/env python3
import re, subprocess, sys, os
WT = "/tmp/rebase"
def sh(cmd):
    return subprocess.run(cmd, shell=True, cwd=WT, capture_output=True, text=True)
def refix_all(t, fname):
    t = re.sub(r"isinstance\(([^()]+?), Awaitable\)", r"isawaitable(\1)", t)
    t = re.sub(r"isinstance\(([^()]+?), ACloseable\)", r'hasattr(\1, "aclose")', t)
    if "isawaitable(" in t and not re.search(r"import .*isawaitable", t):
        if re.search(r"^from inspect import (.*)$", t, re.M):
            t = re.sub(r"^from inspect import (.*)$", lambda m: f"from inspect import {m.group(1)}, isawaitable", t, count=1, flags=re.M)
        else:
            t = re.sub(r"^(from typing import)", "from inspect import isawaitable\n\\1", t, count=1, flags=re.M)
    # repo fixes 82ebe23 / 9f1a290 / 7a2b048
    t = re.sub(r"def __call__\(self, \*args", "def __call__(self, /, *args", t)
    t = re.sub(r"def cache_discard\(self, \*args", "def cache_discard(self, /, *args", t)
    t = re.sub(r"def callback\(self, callback: C, \*args", "def callback(self, callback: C, /, *args", t)
    # repo fix b69fc4c
    t = t.replace("self._target_key != state.current_key", "not (self._target_key == state.current_key)")
    if fname.endswith("builtins.py"):
        t = re.sub(r"\b(value) != ((?:self\._)?sentinel)\b(?<!is not sentinel and value != sentinel)", r"\1 is not \2 and \1 != \2", t)
        t = t.replace("value is not sentinel and value is not sentinel and", "value is not sentinel and")
    return t
for patch in sys.argv[1:]:
    sh("git reset -q --hard HEAD")
    sh(f"git apply --3way {patch}")
    changed = [l[3:] for l in sh("git status --short").stdout.splitlines()]
    for f in changed:
        path = os.path.join(WT, f)
        if not f.endswith(".py") or not os.path.exists(path): continue
        src = open(path).read()
        src = re.sub(r"<<<<<<< ours\n(.*?)=======\n(.*?)>>>>>>> theirs\n", lambda m: m.group(2), src, flags=re.S)
        src = refix_all(src, f)
        open(path, "w").write(src)
    sh("git reset -q")
    diff = sh("git diff HEAD").stdout
    comp = sh("/venv/bin/python -m compileall -q asyncstdlib")
    tests = sh("/venv/bin/python -m pytest -q -p no:cacheprovider unittests 2>&1 | tail -1").stdout.strip()
    left = sh("grep -n 'ACloseable)\\|, Awaitable)' -r asyncstdlib | grep isinstance").stdout
    ok = bool(diff) and comp.returncode == 0 and "388 passed" in tests
    print(("OK  " if ok else "BAD ") + patch, f"files={changed} tests='{tests}' leftovers={left.strip()[:200]!r}")
    if ok:
        open(patch, "w").write(diff)
sh("git reset -q --hard HEAD")
