#!/usr/bin/env python3
"""Emit the markdown table of DESIGN.md section 10 from seeded/MATRIX.json and mutants/UNIT_STATUS.json."""
import json
import os

VERIF = os.path.dirname(os.path.dirname(os.path.abspath(__file__)))
SUMMARY = {
    "C01_1": "merge loses stability for ties (`_KeyIter.__eq__` dropped, position never consulted)",
    "C01_2": "`zip(strict=True)` swallows a surplus `None` item (None used as exhaustion marker)",
    "C01_3": "tee unregisters a finished child with `list.remove` (== instead of identity): a sibling loses items",
    "C01_4": "`iter(callable, sentinel)` stops on identity instead of equality",
    "C02_1": "`sorted(key, reverse=True)` reverses equal-key items (position tuple + plain reverse sort)",
    "C02_2": "`reduce(f, it, None)` treats an explicit `None` initial as absent",
    "C02_3": "`sum` accumulates with `+=` again (mutable start mutated)",
    "C02_4": "`nlargest/nsmallest` tie index counts the wrong way after an inlining refactor",
    "C03_1": "`sum` takes the builtin fast path for sync iterables (compensated floats, str start)",
    "C03_2": "`Awaitify` decides with `iscoroutine`: awaitable objects from callables are not awaited",
    "C03_3": "`scoped_iter` hands out sync iterables un-borrowed",
    "C03_4": "`zip` short-circuits on a falsy (known empty) argument and skips strict validation",
    "C04_1": "`accumulate` fetches its first item before scoping the source",
    "C04_2": "tee unregisters a peer with `list.remove` (==): source never closed for some close orders",
    "C04_3": "`merge` leaks sources after a fault on the first item of an earlier source (two cooperating sites)",
    "C04_4": "`chain.from_iterable` no longer scopes its outer async iterator",
    "C05_1": "`islice` with a step stops before `stop` (under-consumes)",
    "C05_3": "`zip(strict=True)` probes every later source once the first ran out (over-pulls)",
    "C05_4": "groupby stale-group guard compares keys instead of identity",
    "C06_1": "`merge` pulls the next head before yielding the current one (fault surfaces one item early)",
    "C06_2": "`Awaitify` calls a sync callable again after its first call failed",
    "C06_3": "groupby swallows an `AttributeError` raised during the scan to the next group",
    "C06_4": "`min/max` compute the first item's key lazily (fault deferred / swallowed for one item)",
    "C07_1": "`borrow()` flattens re-borrow chains (child survives its closed parent)",
    "C07_2": "no closable wrapper for iterators without `aclose` (closed handle keeps yielding)",
    "C07_3": "closing only disables asend/athrow for full generator interfaces (iterator with asend but no athrow)",
    "C07_4": "`ScopedIter.__aexit__` throws the error into the iterator: a failing tool closes the underlying through a borrowed handle",
    "C08_1": "underlying closed through a generator `finally` that is skipped when never advanced",
    "C08_2": "`islice` under-consumes trailing items of a stepped slice (next tool sees other items)",
    "C08_3": "a finished scope no longer disables asend/athrow on its handle",
    "C08_4": "`scoped_iter` decides closeable with `isinstance(AsyncGenerator)` (class iterators get the neutral context)",
    "C09_1": "tee cleanup with `list.remove` (==): wrong sibling unregistered",
    "C09_2": "tee peer cleanup only on exhaustion / explicit aclose, not when cancelled inside anext",
    "C09_3": "tee releases the lock before distributing the fetched item (needs a lock whose release suspends)",
    "C09_4": "tee closes the source when `not any(peers)` (no peer has buffered items) instead of no peers",
    "C10_1": "typed key drops keyword value types",
    "C10_2": "`move_to_end` on hit only when the cache is full",
    "C10_3": "CPython-style `full` flag not reset by `cache_discard`",
    "C10_4": "lookup via `cache.get(key)`: a cached `None` result is a miss",
    "C11_1": "bounded cache evicts before the await (overflow with overlapping misses)",
    "C11_2": "unbounded cache counts the miss after the await (lost for failed/cancelled calls)",
    "C11_3": "late finisher of overlapping same-key calls re-booked from miss to hit",
    "C11_4": "`full` flag cleared by `cache_discard` of an absent key (currsize exceeds maxsize)",
    "C12_1": "failure cleanup pops another run's cached value",
    "C12_2": "placeholder memoises its own result and ignores `del`",
    "C12_3": "a getter's `KeyError` is mistaken for 'value was deleted' (getter silently re-run)",
    "C12_4": "re-check under the lock treats a deleted entry as 'still mine' (two runs for one value)",
    "C13_1": "reordered `except` clauses in `__aexit__` (fresh StopAsyncIteration re-raised)",
    "C13_2": "normal and exceptional exit branches merged into one try (`except None`)",
    "C13_3": "promotion check uses `__context__` instead of `__cause__` (generator's own RuntimeError dropped)",
    "C13_4": "KeyboardInterrupt / SystemExit closed instead of thrown into the generator",
    "C14_1": "`__aexit__` registered before `__aenter__` is awaited (failed enter is exited)",
    "C14_2": "`except Exception` in the unwind loop (BaseException from an exit aborts the unwind)",
    "C14_3": "suppression gated on the block's outcome instead of the exception in flight",
    "C14_4": "callbacks cleared after the unwind, but not when the unwind raises (run again later)",
    "C15_1": "`_recreate_cm` returns self until the first enter completed (generator shared by concurrent calls)",
    "C15_2": "hand-expanded `async with` in the decorator skips `__aexit__` for BaseException",
    "C15_3": "reordered `except` clauses: a swallowed plain `Exception` surfaces as StopAsyncIteration",
    "C15_4": "decorator returns after the `async with` block (UnboundLocalError when suppressed)",
    "C16_1": "stale group not invalidated when the groupby advance hits the end",
    "C16_2": "remainder of a partly consumed group returned as a new group",
    "C16_3": "stale group with the key of a later run steals that run's items",
    "C16_4": "exhausted groupby hands out a phantom group with the last skipped item",
    "C17_1": "cached_property placeholder trampoline forwards sends but not throws",
    "C17_2": "`anext(default)` delegates to `builtins.anext` (re-awaits plain awaitables on every resume)",
    "C17_3": "`Awaitify` uses `iscoroutine`: a callable's awaitable object is never driven",
    "C17_4": "tee child `aclose()` spin-waits on a bare `yield` while a sibling task is mid-fetch",
    "C18_1": "`reduce` fetches its first item outside the scoped block",
    "C18_2": "`except Exception` in the ExitStack unwind loop (cancellation inside an exit handler)",
    "C18_3": "`zip` closing loop wrapped in one try: an iterator without aclose stops the loop",
    "C18_4": "cached_property failure cleanup `del`s the shared placeholder (KeyError instead of the cancellation)",
    "C19_1": "`any_iter` awaits only coroutine items",
    "C19_2": "`sync()` delegates to the caching `awaitify` helper",
    "C19_3": "`any_iter` treats iterable as taking precedence over awaitable (Future-like outer)",
    "C19_4": "`sync` wrapper `try: await / except TypeError` swallows the callable's own TypeError",
    "C20_1": "tee snapshots the peers' `append` methods (closed child keeps being fed)",
    "C20_2": "`nlargest/nsmallest` prune lazily at 2n candidates",
    "C20_3": "closed tee child keeps its backlog alive through its handle",
    "C20_4": "groupby remembers every group it handed out (one item per group with key=None)",
    "S01_1": "strict `zip`: `None` mistaken for exhaustion in the surplus check",
    "S01_2": "`zip` cleanup aborts at the first iterator without `aclose` (later sources leak)",
    "S01_3": "`iter(callable, sentinel)` compares by identity for `None` / types without `__eq__`",
    "S02_1": "`sum` uses `+=` after the first addition (list start + tuple item accepted, first element mutated)",
    "S02_2": "`min/max`: first key evaluated inside the empty-iterable guard (key raising StopAsyncIteration = 'empty')",
    "S02_3": "`sorted` without key on an async source: reverse by sort-then-reverse (stability lost)",
    "S03_1": "`zip_longest` tracks iterators by identity: the same iterator passed twice loses the padded tail",
    "S03_2": "`batched(strict=True)` via strict zip replaces a source's own ValueError",
    "S03_3": "`accumulate` default reduction uses `+=` (mutable items: all results are one mutated object)",
    "S04_1": "tee enters/exits the lock by hand: a cancelled waiter releases the lock of its sibling",
    "S04_2": "chain counts started iterators: an owned iterator is skipped on early close after a non-closeable one",
    "S04_3": "tee appends to the buffers after releasing the lock (needs a lock whose release suspends)",
    "S05_1": "groupby default key through `Awaitify`: an awaitable first item is awaited",
    "S05_2": "groupby: key raising StopAsyncIteration taken for exhaustion, source not closed on aclose",
    "S05_3": "groupby yields to the loop after every 32 skipped items (library-made suspension)",
    "S06_1": "`nlargest/nsmallest` key-less fast path drops the position tie-breaker",
    "S06_2": "`nlargest(n=1)` shortcut uses `None` as 'nothing yet' marker",
    "S06_3": "`merge` cleanup loop in one try: the first source without `aclose` aborts closing the rest",
    "S07_1": "typed cache key loses keyword value types",
    "S07_2": "LRU refresh skipped while the cache still has room",
    "S07_3": "descriptor binding tests truthiness of the instance (falsy instance gets the unbound cache)",
    "S08_1": "`reduce`: reducer raising StopAsyncIteration mistaken for end of input",
    "S08_2": "cached_property placeholder memoises its own result (stale after `del`)",
    "S08_3": "cached_property failure cleanup pops another run's cached value",
    "S09_1": "contextmanager swallows a RuntimeError chained `from` the block's exception",
    "S09_2": "ExitStack detaches its callback deque before unwinding (exits registered during unwinding wait)",
    "S09_3": "ExitStack truth test of the exit result outside the try (raising `__bool__` aborts the unwind)",
    "S10_1": "borrowed handle: asend/athrow disabled only when the iterator has `athrow`",
    "S10_2": "`ScopedIter` swallows an AttributeError raised by the source's `aclose`",
    "S10_3": "`sync()` commits to the flavour of the first result",
    "T01_1": "non-strict `zip` calls every `__anext__()` before awaiting any (sources that consume when called)",
    "T01_2": "`filter` picks its predicate by truthiness (a falsy callable object is ignored)",
    "T01_3": "`iter(callable, sentinel)` swallows TypeError / ValueError raised by the comparison",
    "T02_1": "`sorted(key)` sorts (key, position, item) tuples: keys whose `==` disagrees with `<` change the order or raise",
    "T02_2": "`tuple()` returns a tuple-subclass argument uncopied",
    "T02_3": "`dict(pairs, **kw)`: a duplicate key in the pairs that is also a keyword takes the pair's value",
    "T03_1": "`cycle` reuses a list argument as its replay buffer (caller mutates it while cycling)",
    "T03_2": "`batched` assembles batches in a module-level scratch list (nested / interleaved batched)",
    "T03_3": "`islice` compares its skip counter with `is` (start >= 257 never reached)",
    "T04_1": "`tee`: `lock or NoLock()` replaces a falsy lock by the dummy lock",
    "T04_2": "`chain` splices a nested chain argument that was already partly consumed",
    "T04_3": "`tee` fast path for list sources: each child iterates the list independently (list mutated meanwhile)",
    "T05_1": "groupby stores the pulled item before its key is computed (a failing key leaves it pending)",
    "T05_2": "groupby skip loop compares against the key current at scan start (non-transitive key equality)",
    "T05_3": "closing a stale group detaches the live group",
    "T06_1": "`merge` builds its heap incrementally (a raising comparison surfaces before later sources are pulled)",
    "T06_2": "`merge` drops exhausted iterators by heap rank instead of position (an empty source shifts the index)",
    "T06_3": "`nsmallest` reverses int/float keys by negation and others by wrapper (mixed key types incomparable)",
    "T07_1": "the disabled cache (maxsize <= 0) hashes its arguments",
    "T07_2": "`CallKey.__eq__` loses the identity shortcut (the same NaN object misses)",
    "T07_3": "keyword order normalised in the call key",
    "T08_1": "cached_property awaits an awaitable cached VALUE on the fallback path",
    "T08_2": "`CachedProperty.__get__` uses setdefault (an overriding property awaiting super() recurses / deadlocks)",
    "T08_3": "placeholder holds its instance weakly (`await Resource().data` raises ReferenceError)",
    "T09_1": "contextmanager tests truthiness of the exception (`if not exc_val`): falsy exception instances",
    "T09_2": "ExitStack skips re-raising the block's own exception object after an inner suppression",
    "T09_3": "generator manager deletes its recreation arguments after a direct enter (as the stdlib does) - see note",
    "T10_1": "`ScopedIter.__aexit__` returns the value of the source's `aclose()` (truthy => exception suppressed)",
    "T10_2": "`force_async` awaits awaitable results of a sync callable on later calls (awaitable data)",
    "T10_3": "`sync()`: `if not result or not isinstance(result, Awaitable)` (falsy awaitable, raising `__bool__`)",
}


def main():
    matrix = json.load(open(os.path.join(VERIF, "seeded", "MATRIX.json")))
    unit = json.load(open(os.path.join(VERIF, "mutants", "UNIT_STATUS.json")))

    def detected(name):
        res = matrix.get(name, {})
        return sorted(p for p, v in res.items() if isinstance(v, dict) and v.get("rc") == 1)

    print("| Seeded change | What it does | Caught by |")
    print("|---|---|---|")
    for name in sorted(SUMMARY):
        d = detected(name)
        print(f"| {name} | {SUMMARY[name]} | {', '.join(d) if d else '**not caught**'} |")
    print()
    print("| Mutant | Unit tests | Caught by |")
    print("|---|---|---|")
    for name in sorted(k for k in matrix if k.endswith(".patch")):
        d = detected(name)
        u = unit.get(name, "?")
        u = "pass" if "388 passed" in u else ("caught by unit tests too" if "failed" in u or "warn" in u else u)
        print(f"| {name[:-6]} | {u} | {', '.join(d) if d else '**not caught**'} |")


if __name__ == "__main__":
    main()
