#!/bin/bash
# run_mutant.sh <patch-file> <property>... : apply the patch to a scratch copy of /repo (outside /repo and
# /verif), run the quick checks of the given properties against it, print one line per property, clean up.
PATCH=$(readlink -f "$1"); shift
SCR=$(mktemp -d /tmp/vfmut.XXXXXX)
mkdir -p $SCR/repo $SCR/out
git -C /repo archive HEAD | tar -x -C $SCR/repo
# include uncommitted changes of tracked files (the working tree is what is checked)
(cd /repo && git diff HEAD) | (cd $SCR/repo && patch -p1 -s >/dev/null 2>&1)
if ! (cd $SCR/repo && patch -p1 -s --dry-run < "$PATCH" >/dev/null 2>&1); then
  echo "MUTANT $(basename $(dirname $PATCH))/$(basename $PATCH): patch does not apply"; rm -rf $SCR; exit 3
fi
(cd $SCR/repo && patch -p1 -s < "$PATCH")
TIER=${MUTANT_TIER:-quick}
for P in "$@"; do
  out=$(cd /verif && VERIF_REPO=$SCR/repo VERIF_EVIDENCE_DIR=$SCR/out VERIF_REPLAY_DIR=$SCR/out/replays ./check $P $TIER 2>&1)
  rc=$?
  buckets=$(echo "$out" | grep -o 'bucket=[^ ]*' | sort -u | head -4 | tr '\n' ' ')
  echo "MUTANT $(basename $(dirname $PATCH))/$(basename $PATCH) $P rc=$rc $buckets"
  [ -n "$MUTANT_VERBOSE" ] && echo "$out" | tail -8
done
rm -rf $SCR
