#!/usr/bin/env python3
"""merge_matrix.py <file>...: merge result files written with VF_MATRIX_FILE into seeded/MATRIX.json (per name and
check the newer result wins) and refresh 'detected_by' in the meta.json of the seeded directories concerned."""
import json, os, sys
VERIF = os.path.dirname(os.path.dirname(os.path.abspath(__file__)))
path = os.path.join(VERIF, "seeded", "MATRIX.json")
matrix = json.load(open(path))
for f in sys.argv[1:]:
    for name, res in json.load(open(f)).items():
        matrix.setdefault(name, {}).update(res)
        meta = os.path.join(VERIF, "seeded", name, "meta.json")
        if os.path.exists(meta):
            m = json.load(open(meta))
            m["detected_by"] = sorted(p for p, v in matrix[name].items() if isinstance(v, dict) and v.get("rc") == 1)
            m["detection_detail"] = {p: v["buckets"] for p, v in matrix[name].items() if isinstance(v, dict) and v.get("rc") == 1}
            json.dump(m, open(meta, "w"), indent=1)
json.dump(matrix, open(path, "w"), indent=1, sort_keys=True)
print("merged", len(sys.argv) - 1, "files;", len(matrix), "entries")
