"""asyncio traps for C17 (must be importable WITHOUT importing asyncstdlib)."""

TRAPPED = ["get_event_loop", "get_running_loop", "new_event_loop", "set_event_loop", "_get_running_loop",
           "get_event_loop_policy", "sleep", "ensure_future", "create_task", "gather", "wait_for", "wait",
           "shield", "current_task", "run", "Lock", "Event", "Semaphore", "Condition", "Queue", "Future", "Task",
           "wrap_future", "to_thread", "timeout"]


def install_traps(record):
    """Replace asyncio's loop-facing names by recorders that raise; returns an undo function."""
    import asyncio

    saved = {}

    def make(name):
        def trap(*args, **kwargs):
            record.append(name)
            raise RuntimeError(f"asyncio.{name} used by the library under test")

        return trap

    for name in TRAPPED:
        if hasattr(asyncio, name):
            saved[name] = getattr(asyncio, name)
            setattr(asyncio, name, make(name))

    def undo():
        for name, value in saved.items():
            setattr(asyncio, name, value)

    return undo


