"""Hand-driven "event loop": the harness owns every suspension.

* ``Ctx``      – per (case, side) context: event log, token registry, counters.
* ``Suspend``  – the only awaitable that ever really suspends; it yields itself
                 to the driver and records what the driver sent / threw back.
* ``run``      – drive one coroutine to completion, optionally throwing an
                 exception at the i-th suspension (cancellation).
* ``Scheduler``– several tasks, the schedule is a list of ints (Hypothesis data).
* ``Lock`` / ``lock_type`` – FIFO lock double with harness-visible state.
* ``loop_mode``– emulate a real loop's asyncgen hooks ("hooks") or none ("bare").
"""
import sys
import contextlib
import typing


class Cancel(BaseException):
    """Thrown into a task at a suspension point (stand-in for CancelledError)."""


class Fault(Exception):
    """Planned failure raised by a double."""


EXC_TYPES = {
    "Fault": Fault,
    "TypeError": TypeError,
    "ValueError": ValueError,
    "AttributeError": AttributeError,
    "KeyError": KeyError,
    "RuntimeError": RuntimeError,
    "LookupError": LookupError,
    # types a library is tempted to use for its own control flow (buffer.popleft(), next(), int(), ...)
    "IndexError": IndexError,
    "OSError": OSError,
    "AssertionError": AssertionError,
    "RecursionError": RecursionError,
    "NotImplementedError": NotImplementedError,
    "EOFError": EOFError,
    "TimeoutError": TimeoutError,
    "ZeroDivisionError": ZeroDivisionError,
    "Cancel": Cancel,
    "KeyboardInterrupt": KeyboardInterrupt,
}


def make_exc(name, tag="planned", side="a"):
    if name == "Stop":
        # the protocol's own exception raised by a USER CALLABLE: StopAsyncIteration for the library,
        # StopIteration for the synchronous reference
        return (StopAsyncIteration if side == "a" else StopIteration)(tag)
    if name == "StopIteration":
        return StopIteration(tag)  # literally this type on either side (C03 compares the library with itself)
    exc = EXC_TYPES[name](tag)
    return exc


class Suspend:
    __slots__ = ("ctx", "token", "origin", "reply", "thrown", "seen", "ready", "resumed")

    def __init__(self, ctx, token, origin, ready=None):
        self.ctx = ctx
        self.token = token
        self.origin = origin
        self.reply = None
        self.thrown = None
        self.seen = 0
        self.ready = ready
        self.resumed = False

    def __await__(self):
        try:
            reply = yield self
        except BaseException as exc:
            self.thrown = exc
            self.resumed = True
            raise
        self.reply = reply
        self.resumed = True
        return reply


class Ctx:
    """Per-side context shared by all doubles of one case."""

    track = False      # when True every new Ctx is appended to ``created`` (used by C17)
    created = []

    def __init__(self, side="a"):
        if Ctx.track:
            Ctx.created.append(self)
        self.accepted = []     # Suspend objects in the order they reached the driver
        self.throw_target = None
        self.side = side
        self.log = []
        self.tokens = 0
        self.issued = []
        self.suspensions = 0
        self.foreign = []
        self.orphans = []
        self.unraisable = []
        self.locks = []
        self.current_task = None
        self.planned = {}

    def ev(self, *event):
        self.log.append(event)

    def suspend(self, origin, ready=None):
        self.tokens += 1
        s = Suspend(self, self.tokens, origin, ready)
        self.issued.append(s)
        return s

    # --- C17 token protocol ------------------------------------------------
    def protocol_errors(self, thrown_ok=()):
        """Violations of 'what the loop sends/throws reaches the awaitable unchanged'."""
        errs = []
        if self.foreign:
            errs.append(("foreign-suspension", [repr(x)[:80] for x in self.foreign[:3]]))
        order = [s.token for s in self.issued if s.seen]
        if order != sorted(order):
            errs.append(("token-order", order[:10]))
        for s in self.issued:
            if s.seen > 1:
                errs.append(("token-yielded-twice", s.token, s.origin))
            if s.seen and s.resumed:
                if s.thrown is not None:
                    if not any(s.thrown is t for t in thrown_ok):
                        errs.append(("wrong-throw", s.token, s.origin, repr(s.thrown)[:80]))
                elif s.reply != ("ack", s.token):
                    errs.append(("wrong-reply", s.token, s.origin, repr(s.reply)[:80]))
            if s.resumed and not s.seen:
                errs.append(("resumed-without-loop", s.token, s.origin))
        return errs


def _accept(ctx, y):
    """Register an object that reached the driver; return True if it is ours."""
    ctx.suspensions += 1
    if not isinstance(y, Suspend) or y.ctx is not ctx:
        ctx.foreign.append(y)
        return False
    y.seen += 1
    ctx.accepted.append(y)
    return True


def run(ctx, coro, cancel_at=None, cancel_exc=None, max_steps=200000):
    """Drive ``coro``; return ("return", value) | ("raise", exc) | ("deadlock", origin).

    ``cancel_at`` = i (1-based): throw ``cancel_exc`` at the i-th suspension.
    Returns the number of suspensions in ``ctx.last_suspensions``.
    """
    n = 0
    to_send = None
    to_throw = None
    thrown = False
    while True:
        try:
            if to_throw is not None:
                exc, to_throw = to_throw, None
                y = coro.throw(exc)
            else:
                y = coro.send(to_send)
        except StopIteration as e:
            ctx.last_suspensions = n
            ctx.cancel_delivered = thrown
            return ("return", e.value)
        except BaseException as e:  # noqa: B902 - outcome is data
            ctx.last_suspensions = n
            ctx.cancel_delivered = thrown
            return ("raise", e)
        n += 1
        if n > max_steps:
            coro.close()
            ctx.last_suspensions = n
            return ("livelock", None)
        ours = _accept(ctx, y)
        to_send = ("ack", y.token) if ours else None
        if ours and y.ready is not None and not y.ready() and cancel_at != n:
            # nobody else can make it ready: single task => deadlock
            try:
                coro.close()
            except BaseException:  # noqa: B902
                pass
            ctx.last_suspensions = n
            return ("deadlock", y.origin)
        if cancel_at is not None and cancel_at == n:
            to_throw = cancel_exc
            thrown = True
            ctx.throw_target = y if ours else None
            ctx.cancel_log_index = len(getattr(ctx, "log", ()))  # what is logged from here on happened afterwards


class Task:
    __slots__ = ("name", "coro", "pending", "done", "outcome", "n_susp", "cancel_at",
                 "cancel_exc", "cancelled", "started")

    def __init__(self, name, coro, cancel_at=None, cancel_exc=None):
        self.name = name
        self.coro = coro
        self.pending = None
        self.done = False
        self.outcome = None
        self.n_susp = 0
        self.cancel_at = cancel_at
        self.cancel_exc = cancel_exc
        self.cancelled = False
        self.started = False

    def wants_cancel(self):
        return (self.cancel_at is not None and not self.cancelled
                and self.n_susp == self.cancel_at)

    def is_ready(self):
        if self.done:
            return False
        if self.pending is None or self.wants_cancel():
            return True
        r = self.pending.ready
        return r is None or bool(r())


class Scheduler:
    """Run several coroutines; ``choices`` decides who advances at each step."""

    def __init__(self, ctx, named_coros, choices, cancel=None, on_step=None, max_steps=20000,
                 default="rr"):
        cancel = cancel or {}
        self.default = default  # after ``choices`` run out: round robin | always the first ready task
        self.branching = []     # number of ready tasks at each step (for exhaustive enumeration)
        self.ctx = ctx
        self.tasks = [
            Task(name, coro, *(cancel.get(name) or (None, None))) for name, coro in named_coros
        ]
        self.choices = list(choices)
        self.on_step = on_step
        self.max_steps = max_steps
        self.steps = 0
        self.verdict = None  # None | "deadlock" | "livelock"
        self.trace = []

    def spawn(self, name, coro):
        t = Task(name, coro)
        self.tasks.append(t)
        return t

    def step(self, t):
        ctx = self.ctx
        ctx.current_task = t.name
        try:
            if t.wants_cancel():
                t.cancelled = True
                y = t.coro.throw(t.cancel_exc)
            elif t.pending is None:
                t.started = True
                y = t.coro.send(None)
            else:
                y = t.coro.send(("ack", t.pending.token))
        except StopIteration as e:
            t.done, t.outcome, t.pending = True, ("return", e.value), None
            return
        except BaseException as e:  # noqa: B902
            # a stored exception must not keep the frames it travelled through (and their locals,
            # e.g. buffers of the code under test) alive: retention checks look at weak references
            e.__traceback__ = None
            t.done, t.outcome, t.pending = True, ("raise", e), None
            return
        finally:
            ctx.current_task = None
        t.n_susp += 1
        if _accept(ctx, y):
            t.pending = y
        else:
            t.pending = Suspend(ctx, -1, "foreign")  # keep going; already recorded

    def run(self):
        k = 0
        rr = 0
        while True:
            live = [t for t in self.tasks if not t.done]
            if not live:
                break
            ready = [t for t in live if t.is_ready()]
            if not ready:
                self.verdict = "deadlock"
                break
            self.branching.append(len(ready))
            if k < len(self.choices):
                pick = ready[self.choices[k] % len(ready)]
            elif self.default == "first":
                pick = ready[0]
            else:
                pick = ready[rr % len(ready)]
                rr += 1
            k += 1
            self.trace.append(pick.name)
            self.step(pick)
            self.steps += 1
            if self.on_step is not None:
                self.on_step(self, pick)
            if self.steps > self.max_steps:
                self.verdict = "livelock"
                break
        if self.verdict is not None:
            for t in self.tasks:
                if not t.done:
                    try:
                        t.coro.close()
                    except BaseException:  # noqa: B902
                        pass
        return self

    def outcome(self, name):
        for t in self.tasks:
            if t.name == name:
                return t.outcome
        raise KeyError(name)


class Lock:
    """FIFO lock; suspends on contention (and optionally when uncontended)."""

    def __init__(self, ctx, name="lock", suspend_uncontended=False, release_susp=False):
        self.release_susp = release_susp  # releasing is a suspension point (like a distributed lock)
        self.ctx = ctx
        self.name = name
        self.locked = False
        self.owner = None
        self.waiters = []
        self.acquired = 0
        self.released = 0
        self.errors = []
        self.suspend_uncontended = suspend_uncontended
        ctx.locks.append(self)

    falsy = False  # a lock may well be falsy (e.g. __len__ == number of waiters): it is still a lock

    def __bool__(self):
        return not self.falsy

    async def __aenter__(self):
        ctx = self.ctx
        if self.suspend_uncontended:
            await ctx.suspend((self.name, "enter"))
        if self.locked or self.waiters:
            me = object()
            self.waiters.append(me)
            try:
                while self.locked or self.waiters[0] is not me:
                    await ctx.suspend(
                        (self.name, "wait"),
                        ready=lambda: (not self.locked) and self.waiters[0] is me,
                    )
            finally:
                self.waiters.remove(me)
        self.locked = True
        self.owner = ctx.current_task
        self.acquired += 1
        return None

    async def __aexit__(self, exc_type, exc_val, exc_tb):
        if not self.locked:
            self.errors.append("release-of-free-lock")
        self.locked = False
        self.owner = None
        self.released += 1
        if self.release_susp:
            await self.ctx.suspend((self.name, "release"))
        return None


def lock_type(ctx, name="plock", suspend_uncontended=False, release_susp=False):
    """A *class* usable as ``cached_property(LockType)``; instances are Lock doubles."""

    class LockType(Lock, typing.AsyncContextManager):
        def __init__(self):
            Lock.__init__(self, ctx, f"{name}{len(ctx.locks)}", suspend_uncontended, release_susp)

    return LockType


@contextlib.contextmanager
def loop_mode(ctx, mode="hooks"):
    """Install asyncgen hooks like a real loop ("hooks") or none at all ("bare").

    In "hooks" mode orphaned async generators are *collected*, not closed; the
    caller closes them with ``close_orphans`` AFTER its assertions so that
    garbage collection can never rescue a leaked source.
    """
    old_hooks = sys.get_asyncgen_hooks()
    old_unraisable = sys.unraisablehook

    def finalizer(agen):
        ctx.orphans.append(agen)

    def unraisable(arg):
        ctx.unraisable.append((type(arg.exc_value).__name__, str(arg.exc_value)[:120]))

    sys.unraisablehook = unraisable
    if mode == "hooks":
        sys.set_asyncgen_hooks(firstiter=None, finalizer=finalizer)
    else:
        sys.set_asyncgen_hooks(firstiter=None, finalizer=None)
    try:
        yield ctx
    finally:
        sys.set_asyncgen_hooks(*old_hooks)
        sys.unraisablehook = old_unraisable


def close_orphans(ctx):
    """Close the async generators the finalizer hook collected (like loop shutdown)."""
    n = 0
    while ctx.orphans:
        agen = ctx.orphans.pop()
        try:
            run(ctx, agen.aclose())
        except BaseException:  # noqa: B902
            pass
        n += 1
    return n


def all_schedules(run_with, limit=50000):
    """Enumerate every schedule of a deterministic scenario.

    ``run_with(prefix)`` runs the scenario with ``Scheduler(choices=prefix, default="first")`` and
    returns that scheduler.  Yields nothing; calls run_with once per distinct complete schedule.
    Returns (number of schedules, exhausted: bool).
    """
    stack = [[]]
    count = 0
    while stack:
        prefix = stack.pop()
        sched = run_with(prefix)
        count += 1
        if count >= limit:
            return count, False
        branching = sched.branching
        for k in range(len(prefix), len(branching)):
            for alt in range(1, branching[k]):
                stack.append(prefix + [0] * (k - len(prefix)) + [alt])
    return count, True
