"""Coverage-guided campaign for one Hypothesis shard (thorough tier): python -m vf.fuzz <module> <shard> <seed> <runs>
<outfile> <hangfile> <excluded-ids-json>

libFuzzer (through atheris) mutates a byte string, ``test.hypothesis.fuzz_one_input`` turns it into a case of the
shard's strategy, and the shard's ordinary ``check`` - the same oracle as in the Hypothesis-driven shard - decides.
Only the library under test is instrumented, so the coverage signal that steers the mutations is "which branches of
asyncstdlib did this case reach".  A violating input is saved to a throw-away Hypothesis example database by
``fuzz_one_input``; a standard Hypothesis run restricted to the reuse and shrink phases then replays and shrinks it,
so the replay file is as small as the ones the Hypothesis-driven shards produce.

The result file has the same format as the one written by ``runner._run_shard``.
"""
import importlib
import json
import os
import shutil
import sys
import traceback


def main(argv):
    modname, shard_name, seed, runs, outfile, hangfile, excluded_json = argv[:7]
    seed, runs = int(seed), int(runs)
    from . import env

    deps = os.path.join(env.VERIF_DIR, ".deps")
    if os.path.isdir(deps) and deps not in sys.path:
        sys.path.append(deps)
    import atheris

    # libFuzzer and the instrumentation report on stderr: keep that in the work directory
    sys.stderr.flush()
    log = os.open(outfile.replace(".json", ".fuzz.log"), os.O_WRONLY | os.O_CREAT | os.O_TRUNC)
    os.dup2(log, 2)
    os.dup2(log, 1)
    while env.REPO in sys.path:
        sys.path.remove(env.REPO)
    sys.path.insert(0, env.REPO)
    with atheris.instrument_imports(include=["asyncstdlib"], enable_loader_override=False):
        import asyncstdlib  # noqa: F401 - imported instrumented, before anything else imports it
    env.setup()
    from .runner import CaseRunner, Violation, quiet_worker

    quiet_worker()
    mod = importlib.import_module(f"vf.props.{modname}")
    shard = next(s for s in mod.shards("thorough") if s.name == shard_name)
    exclusions = getattr(mod, "EXCLUSIONS", {})
    preds = [exclusions[e] for e in json.loads(excluded_json) if e in exclusions]
    runner = CaseRunner(shard, hangfile, preds)
    result = {"shard": "cg:" + shard.name, "status": "ok", "engine": "atheris"}
    work = os.path.dirname(outfile)
    tag = os.path.basename(outfile).replace(".json", "")
    corpus = os.path.join(work, f"corpus-{tag}")
    dbdir = os.path.join(work, f"db-{tag}")
    os.makedirs(corpus, exist_ok=True)

    from hypothesis import given, settings, HealthCheck, Phase
    from hypothesis.database import DirectoryBasedExampleDatabase

    cfg = settings(database=DirectoryBasedExampleDatabase(dbdir), deadline=None, derandomize=False,
                   report_multiple_bugs=False, suppress_health_check=list(HealthCheck), print_blob=False,
                   phases=[Phase.reuse, Phase.shrink], max_examples=50)

    @cfg  # (no @seed: that would switch the example database off, and with it the hand-over to the shrinker)
    @given(shard.strategy)
    def test(case):
        runner.one(case)

    fuzz_one = test.hypothesis.fuzz_one_input
    state = {"valid": 0, "inputs": 0}

    def done(status=None):
        if status:
            result["status"] = status
        result["fuzz_inputs"] = state["inputs"]
        runner.finish(result, outfile)
        shutil.rmtree(corpus, ignore_errors=True)
        shutil.rmtree(dbdir, ignore_errors=True)
        os._exit(0)

    def shrink_and_report():
        del runner.failures[:-1]
        try:
            test()  # replays the saved failing input, shrinks it, raises the minimal failure
        except Violation:
            pass
        except BaseException:  # noqa: B902
            result["shrink_error"] = traceback.format_exc()[-1500:]
        case, bucket, detail = runner.failures[-1]
        result["violations"] = [{"bucket": bucket, "detail": detail, "case": case}]
        done("violation")

    def target(data):
        state["inputs"] += 1
        before = runner.stats.get("seen", 0) + runner.stats["excluded"]
        try:
            fuzz_one(data)
        except Violation:
            shrink_and_report()
        except BaseException:  # noqa: B902
            result["error"] = traceback.format_exc()[-4000:]
            done("error")
        if runner.stats.get("seen", 0) + runner.stats["excluded"] > before:
            state["valid"] += 1
            if state["valid"] >= runs:
                done()
            if state["valid"] % 100 == 0:
                result["fuzz_inputs"] = state["inputs"]
                runner.finish(dict(result, partial=True), outfile)
        elif state["inputs"] % 2000 == 0:
            # a strategy for which most byte strings are no valid case: libFuzzer may use up its input budget (and end
            # the process) long before the wanted number of cases was seen - what was seen until then stands
            result["fuzz_inputs"] = state["inputs"]
            runner.finish(dict(result, partial=True), outfile)

    runner.finish(dict(result, partial=True, fuzz_inputs=0), outfile)  # (stands if libFuzzer ends the process early)
    atheris.Setup([sys.argv[0], f"-seed={seed % (2 ** 31) or 1}", "-max_len=8192", "-len_control=0", "-timeout=0",
                   f"-runs={runs * 40}", "-rss_limit_mb=4096", corpus], target)
    atheris.Fuzz()
    done()  # (not reached: libFuzzer exits the process; the periodic partial result then stands)


if __name__ == "__main__":
    try:
        main(sys.argv[1:])
    except BaseException:  # noqa: B902
        try:
            with open(sys.argv[5], "w") as fh:
                json.dump({"shard": "cg:" + sys.argv[2], "status": "error", "error": traceback.format_exc()[-4000:]}, fh)
        finally:
            os._exit(0)
