"""Entry point: python -m vf.main C01 quick|thorough [--replay file] [--only shard-substring]"""
import argparse
import importlib
import json
import os
import sys
import time

from . import env


def load(prop):
    name = prop.lower()
    return importlib.import_module(f"vf.props.{name}")


def replay(mod, path, shard_name=None, raw_case=False):
    from .runner import Violation

    with open(path) as fh:
        data = json.load(fh)
    if raw_case:
        case, shard_name = data, shard_name
    else:
        case, shard_name = data["case"], shard_name or data["shard"]
    shard_name = (shard_name or "").removeprefix("cg:")  # a coverage-guided campaign uses its base shard's check
    shards = mod.shards("quick") + mod.shards("thorough")
    shard = next((s for s in shards if s.name == shard_name), None)
    if shard is None:
        print(f"HARNESS-ERROR unknown shard {shard_name}", file=sys.stderr)
        return 2
    try:
        shard.check(case)
    except Violation as v:
        print(f"  bucket={v.bucket} detail={str(v.detail)[:2000]}")
        print(f"VIOLATION property={mod.PROPERTY} replay={os.path.abspath(path)}")
        return 1
    print(f"{mod.PROPERTY}: replayed case passes")
    return 0


def main(argv=None):
    ap = argparse.ArgumentParser()
    ap.add_argument("property")
    ap.add_argument("tier", nargs="?", default=os.environ.get("VERIF_TIER", "quick"))
    ap.add_argument("--replay")
    ap.add_argument("--replay-case")
    ap.add_argument("--shard")
    ap.add_argument("--only", action="append")
    ap.add_argument("--jobs", type=int, default=int(os.environ.get("VERIF_JOBS", "16")))
    args = ap.parse_args(argv)
    try:
        env.setup()
        mod = load(args.property)
    except Exception:
        import traceback

        traceback.print_exc()
        return 2
    if args.replay:
        return replay(mod, args.replay, args.shard)
    if args.replay_case:
        return replay(mod, args.replay_case, args.shard, raw_case=True)
    from .runner import run_property

    if args.tier not in ("quick", "thorough"):
        args.tier = "quick"
    return run_property(mod, args.tier, env.seed(), jobs=args.jobs, only=args.only)


if __name__ == "__main__":
    sys.exit(main())
