"""Shard runner: Hypothesis-driven or enumerated shards on 16 processes,
hang watchdog, replay files, known findings, evidence json.

A property module exposes

  PROPERTY  = "C01"
  LEVEL     = "exploration" | "fault_enumeration"
  RULE      = "how cases are generated and what makes one non-trivial"
  ASSUMPTIONS = [...]
  def shards(tier) -> list[Shard]

A shard's ``check(case)`` returns None, or raises ``Violation(bucket, detail)``.
Exit status of ``main``: 0 held / 1 violation (with VIOLATION lines) / 2 harness error.
"""
import hashlib
import json
import multiprocessing
import os
import re
import shutil
import signal
import subprocess
import sys
import time
import traceback
from collections import Counter

from . import env

WATCHDOG_S = 30
ISOLATED_LIMIT_S = 90


class Violation(Exception):
    def __init__(self, bucket, detail="", case=None):
        super().__init__(f"{bucket}: {detail}")
        self.bucket = bucket
        self.detail = detail
        self.case = case  # optional: the exact sub-case (e.g. with the injected fault) to replay


class Shard:
    def __init__(self, name, check, strategy=None, cases=None, n=200, nontrivial=None,
                 classify=None, thorough_mult=20, exhaustive=False, fuzz=None):
        self.name = name
        self.check = check
        self.strategy = strategy
        self.cases = cases  # callable -> iterable of cases (enumerated shard)
        self.n = n
        self.nontrivial = nontrivial or (lambda case: True)
        self.classify = classify  # case -> iterable of labels
        self.thorough_mult = thorough_mult
        self.exhaustive = exhaustive
        self.fuzz = fuzz  # valid cases of the coverage-guided campaign in the thorough tier (None: default, 0: none)


def case_hash(case):
    blob = json.dumps(case, sort_keys=True, default=str).encode()
    return hashlib.blake2b(blob, digest_size=8).hexdigest()


def _slug(text):
    return re.sub(r"[^A-Za-z0-9_.-]+", "_", text)[:120]


# --------------------------------------------------------------------------
# worker side


class _Watch:
    """Per-case alarm: a case that runs > WATCHDOG_S dumps itself and exits."""

    def __init__(self, hangfile):
        self.hangfile = hangfile
        self.case = None
        signal.signal(signal.SIGALRM, self._fire)

    def _fire(self, signum, frame):
        try:
            with open(self.hangfile, "w") as fh:
                json.dump(self.case, fh, default=str)
        finally:
            os._exit(97)

    def arm(self, case):
        self.case = case
        signal.alarm(WATCHDOG_S)

    def disarm(self):
        signal.alarm(0)


class CaseRunner:
    """Runs single cases of one shard, keeping the statistics the evidence needs."""

    def __init__(self, shard, hangfile, excluded):
        self.shard = shard
        self.excluded = excluded
        self.watch = _Watch(hangfile)
        self.stats = {"evaluations": 0, "nontrivial": set(), "samples": [], "labels": Counter(), "excluded": 0}
        self.failures = []
        self.t0 = time.time()

    def one(self, case):
        shard, stats, watch = self.shard, self.stats, self.watch
        if self.excluded and any(pred(case) for pred in self.excluded):
            stats["excluded"] += 1
            return
        watch.arm(case)
        try:
            nt = False
            try:
                nt = bool(shard.nontrivial(case))
            except Exception:
                nt = False
            chash = case_hash(case)
            if nt:
                stats["nontrivial"].add(chash)
            if shard.classify is not None:
                for label in shard.classify(case):
                    stats["labels"][label] += 1
            try:
                ret = shard.check(case)
            except Violation as v:
                stats["evaluations"] += 1
                self.failures.append((v.case if v.case is not None else case, v.bucket, v.detail))
                raise
            # a check may expand one generated case into many runs (fault / cancel positions)
            if isinstance(ret, dict):
                stats["evaluations"] += int(ret.get("evaluations", 1))
                for key in ret.get("nontrivial", ()):
                    stats["nontrivial"].add(f"{chash}/{key}")
                if ret.get("nontrivial"):
                    nt = True
                    case = dict(case, _expanded_runs=list(ret["nontrivial"])[:6])
                for label, cnt in (ret.get("labels") or {}).items():
                    stats["labels"][label] += cnt
            else:
                stats["evaluations"] += 1
            stats["seen"] = stats.get("seen", 0) + 1
            if nt and len(stats["samples"]) < 3 and (stats["seen"] % 5 == 1 or not stats["samples"]):
                stats["samples"].append(case)
        finally:
            watch.disarm()

    def finish(self, result, outfile):
        stats, shard = self.stats, self.shard
        result.update(
            evaluations=stats["evaluations"],
            nontrivial=sorted(stats["nontrivial"]),
            samples=stats["samples"],
            labels=dict(stats["labels"]),
            excluded=stats["excluded"],
            wall_s=round(time.time() - self.t0, 2),
            exhaustive=bool(shard.exhaustive and shard.cases is not None),
        )
        with open(outfile, "w") as fh:
            json.dump(result, fh, default=str)


def quiet_worker():
    sys.unraisablehook = lambda arg: None  # leftovers of leaked doubles are not library output
    import warnings

    warnings.filterwarnings("ignore", message="coroutine .* was never awaited")


def _run_shard(shard, shard_seed, tier, outfile, hangfile, excluded):
    """Executed in a forked child.  Writes a json result to ``outfile``."""
    quiet_worker()
    if getattr(shard, "engine", "hypothesis") == "atheris":
        # coverage-guided campaign: needs a fresh interpreter (the library must be imported instrumented)
        os.execv(sys.executable, [sys.executable, "-m", "vf.fuzz", shard.module, shard.base_name, str(shard_seed),
                                  str(shard.fuzz_runs), outfile, hangfile, json.dumps(shard.excluded_ids)])
    runner = CaseRunner(shard, hangfile, excluded)
    one, failures = runner.one, runner.failures
    result = {"shard": shard.name, "status": "ok"}
    try:
        if shard.cases is not None:
            seen_buckets = {}
            for case in shard.cases():
                try:
                    one(case)
                except Violation as v:
                    best = seen_buckets.get(v.bucket)
                    vcase = v.case if v.case is not None else case
                    size = len(json.dumps(vcase, default=str))
                    if best is None or size < best[0]:
                        seen_buckets[v.bucket] = (size, vcase, v.detail)
            if seen_buckets:
                result["status"] = "violation"
                result["violations"] = [
                    {"bucket": b, "detail": d, "case": c} for b, (_, c, d) in seen_buckets.items()
                ]
        else:
            import hypothesis
            from hypothesis import given, settings, HealthCheck, seed as hseed

            n = shard.n if tier == "quick" else shard.n * shard.thorough_mult
            # One Hypothesis run explores around the examples it happened to start with: with a few hundred examples
            # whole regions of the strategy (one source AND a key function, say) can stay empty for a given seed.
            # The budget is therefore spent in several independent runs, each with its own derived seed.
            rounds = 1 if n < 90 else (3 if n < 3000 else 6)
            for r in range(rounds):
                cfg = settings(max_examples=n // rounds + (1 if r < n % rounds else 0), database=None, deadline=None,
                               derandomize=False, report_multiple_bugs=False,
                               suppress_health_check=list(HealthCheck), print_blob=False)

                @hseed(shard_seed + 7919 * r)
                @cfg
                @given(shard.strategy)
                def test(case):
                    one(case)

                try:
                    test()
                except Violation:
                    case, bucket, detail = failures[-1]
                    result["status"] = "violation"
                    result["violations"] = [{"bucket": bucket, "detail": detail, "case": case}]
                    break
                except hypothesis.errors.Unsatisfiable as exc:
                    result["status"] = "error"
                    result["error"] = f"Unsatisfiable: {exc}"
                    break
    except BaseException:  # noqa: B902
        result["status"] = "error"
        result["error"] = traceback.format_exc()[-4000:]
    runner.finish(result, outfile)
    os._exit(0)


# --------------------------------------------------------------------------
# parent side


def load_known():
    path = os.path.join(env.VERIF_DIR, "known_findings.json")
    try:
        with open(path) as fh:
            return json.load(fh)
    except FileNotFoundError:
        return {"known": [], "fixed": []}


def _isolated_rerun(module_name, shard_name, hangcase_path):
    """Re-run one case alone; True if it terminates within ISOLATED_LIMIT_S."""
    cmd = [sys.executable, "-m", "vf.main", module_name, "--replay-case", hangcase_path,
           "--shard", shard_name]
    try:
        subprocess.run(cmd, cwd=env.VERIF_DIR, timeout=ISOLATED_LIMIT_S,
                       stdout=subprocess.DEVNULL, stderr=subprocess.DEVNULL)
        return True
    except subprocess.TimeoutExpired:
        return False


FUZZ_RUNS = int(os.environ.get("VERIF_FUZZ_RUNS", "2500"))


def atheris_available():
    deps = os.path.join(env.VERIF_DIR, ".deps")
    if os.path.isdir(deps) and deps not in sys.path:
        sys.path.append(deps)
    try:
        import importlib.util

        return importlib.util.find_spec("atheris") is not None
    except Exception:
        return False


def coverage_guided(mod, shards):
    """one coverage-guided campaign (vf/fuzz.py) per Hypothesis-driven shard of the thorough tier"""
    import copy

    out = []
    for s in shards:
        runs = FUZZ_RUNS if s.fuzz is None else s.fuzz
        if s.strategy is None or not runs:
            continue
        cg = copy.copy(s)
        cg.name, cg.base_name, cg.engine = "cg:" + s.name, s.name, "atheris"
        cg.module = mod.__name__.rsplit(".", 1)[-1]
        cg.fuzz_runs = runs
        cg.excluded_ids = []
        out.append(cg)
    return out


def run_property(mod, tier, seed, jobs=16, only=None):
    t0 = time.time()
    prop = mod.PROPERTY
    shards = mod.shards(tier)
    fuzz_note = None
    if tier == "thorough" and FUZZ_RUNS:
        if atheris_available():
            shards = shards + coverage_guided(mod, shards)
        else:
            fuzz_note = "atheris not importable: coverage-guided campaigns skipped"
    if only:
        shards = [s for s in shards if any(o in s.name for o in only)]
    work = os.path.join(env.VERIF_DIR, ".work", f"{prop}-{os.getpid()}")
    shutil.rmtree(work, ignore_errors=True)
    os.makedirs(work)
    known = load_known()
    known_for = [k for k in known.get("known", []) if k["property"] == prop]
    exclusions = getattr(mod, "EXCLUSIONS", {})

    ctx = multiprocessing.get_context("fork")
    pending = list(enumerate(shards))
    running = {}
    results = []
    reruns = Counter()
    known_hit = {}

    def launch(idx, shard, excluded_ids):
        out = os.path.join(work, f"{idx}-{len(excluded_ids)}.json")
        hang = os.path.join(work, f"{idx}-{len(excluded_ids)}.hang.json")
        preds = [exclusions[e] for e in excluded_ids if e in exclusions]
        if getattr(shard, "engine", None) == "atheris":
            shard.excluded_ids = list(excluded_ids)
        p = ctx.Process(target=_run_shard,
                        args=(shard, seed * 1009 + idx, tier, out, hang, preds))
        p.start()
        running[p.pid] = (p, idx, shard, out, hang, tuple(excluded_ids))

    while pending or running:
        while pending and len(running) < jobs:
            idx, shard = pending.pop(0)
            launch(idx, shard, ())
        time.sleep(0.02)
        for pid in list(running):
            p, idx, shard, out, hang, excl = running[pid]
            if p.is_alive():
                continue
            p.join()
            del running[pid]
            if os.path.exists(out):
                with open(out) as fh:
                    res = json.load(fh)
            elif os.path.exists(hang):
                case_file = hang
                if _isolated_rerun(mod.__name__.rsplit(".", 1)[-1], shard.name, case_file):
                    res = {"shard": shard.name, "status": "inconclusive",
                           "error": "watchdog fired but the case terminates in isolation"}
                else:
                    with open(hang) as fh:
                        case = json.load(fh)
                    res = {"shard": shard.name, "status": "violation", "violations": [
                        {"bucket": f"{prop}/{re.sub(r'-[0-9]+$', '', shard.name)}/non-termination",
                         "detail": f"case does not terminate within {ISOLATED_LIMIT_S}s",
                         "case": case}]}
            else:
                res = {"shard": shard.name, "status": "error",
                       "error": f"worker died with exit code {p.exitcode}"}
            # known findings: report once, exclude by construction, search on
            if res["status"] == "violation":
                fresh = []
                again = list(excl)
                for v in res["violations"]:
                    match = next((k for k in known_for if k["bucket"] == v["bucket"]), None)
                    if match is not None and match["id"] in exclusions and match["id"] not in excl:
                        known_hit[match["id"]] = match
                        again.append(match["id"])
                    else:
                        fresh.append(v)
                if not fresh and len(again) > len(excl) and reruns[idx] < 8:
                    reruns[idx] += 1
                    launch(idx, shard, again)
                    continue
                res["violations"] = fresh
                if not fresh:
                    res["status"] = "ok"
            res["excluded_known"] = list(excl)
            results.append(res)
    shutil.rmtree(work, ignore_errors=True)
    return finish(mod, tier, seed, results, known_hit, time.time() - t0, fuzz_note)


def finish(mod, tier, seed, results, known_hit, wall, fuzz_note=None):
    prop = mod.PROPERTY
    evaluations = sum(r.get("evaluations", 0) for r in results)
    nontrivial = set()
    for r in results:
        nontrivial.update(f"{r['shard']}:{h}" for h in r.get("nontrivial", []))
    samples = []
    for r in results:
        for s in r.get("samples", [])[:1]:
            if len(samples) < 8:
                samples.append({"shard": r["shard"], "case": s})
    labels = Counter()
    for r in results:
        labels.update(r.get("labels", {}))
    violations = []
    errors = []
    inconclusive = []
    for r in results:
        if r["status"] == "violation":
            for v in r["violations"]:
                violations.append((r["shard"], v))
        elif r["status"] == "error":
            errors.append((r["shard"], r.get("error", "")))
        elif r["status"] == "inconclusive":
            inconclusive.append(r["shard"])

    replay_dir = os.path.join(os.environ.get("VERIF_REPLAY_DIR") or os.path.join(env.VERIF_DIR, "replays"), prop)
    lines = []
    for shard_name, v in violations:
        os.makedirs(replay_dir, exist_ok=True)
        path = os.path.join(replay_dir, _slug(v["bucket"]) + ".json")
        with open(path, "w") as fh:
            json.dump({"property": prop, "shard": shard_name, "bucket": v["bucket"],
                       "detail": v["detail"], "case": v["case"]}, fh, indent=1, default=str)
        lines.append(f"VIOLATION property={prop} replay={path}")
        print(f"  bucket={v['bucket']} detail={str(v['detail'])[:300]}")
    for k in known_hit.values():
        print(f"KNOWN-FINDING: property={prop} {k['what']}")
    all_exhaustive = bool(results) and all(r.get("exhaustive") for r in results)
    scope = getattr(mod, "EXHAUSTIVE_SCOPE", None)
    scope_note = None
    if scope and not all_exhaustive:
        # the property's own finite quantifier space is enumerated completely by the shards with this
        # prefix; further (sampled) shards only add variations on top of it
        prefix, scope_note = scope
        inside = [r for r in results if r["shard"].startswith(prefix)]
        all_exhaustive = bool(inside) and all(r.get("exhaustive") and r["status"] == "ok" for r in inside)
    evidence = {
        "property_id": prop,
        "tier": tier,
        "seed": seed,
        "level": mod.LEVEL,
        "coverage": {
            "evaluations": evaluations,
            "distinct_nontrivial": len(nontrivial),
            "rule": mod.RULE,
            "samples": samples,
            "exhaustive": all_exhaustive,
            **({"exhaustive_scope": scope_note} if scope_note else {}),
            "class_distribution": dict(sorted(labels.items())),
            "shards": {r["shard"]: {"evaluations": r.get("evaluations", 0),
                                    "nontrivial": len(r.get("nontrivial", [])),
                                    "excluded_known": r.get("excluded", 0),
                                    "status": r["status"],
                                    "exhaustive": r.get("exhaustive", False)} for r in
                       sorted(results, key=lambda r: r["shard"])},
            "inconclusive_shards": inconclusive,
            "known_findings_hit": sorted(known_hit),
        },
        "assumptions": list(getattr(mod, "ASSUMPTIONS", [])),
        "wall_s": round(wall, 2),
        "violations": len(violations),
    }
    cg = [r for r in results if r.get("engine") == "atheris"]
    if cg or fuzz_note:
        evidence["coverage"]["coverage_guided"] = fuzz_note or {
            "engine": "atheris/libFuzzer over hypothesis fuzz_one_input, asyncstdlib instrumented",
            "campaigns": len(cg), "cases": sum(r.get("evaluations", 0) for r in cg),
            "fuzzer_inputs": sum(r.get("fuzz_inputs", 0) for r in cg)}
    extra = getattr(mod, "EXTRA_COVERAGE", None)
    if extra:
        evidence["coverage"].update(extra(results))
    evidence_dir = os.environ.get("VERIF_EVIDENCE_DIR") or os.path.join(env.VERIF_DIR, "evidence")
    os.makedirs(evidence_dir, exist_ok=True)
    with open(os.path.join(evidence_dir, f"{prop}.json"), "w") as fh:
        json.dump(evidence, fh, indent=1, default=str)
    print(f"{prop} {tier} seed={seed}: {evaluations} cases, {len(nontrivial)} distinct non-trivial, "
          f"{len(results)} shards, {len(violations)} violations, {len(errors)} harness errors, "
          f"{wall:.1f}s")
    for line in lines:
        print(line)
    if errors:
        for shard_name, err in errors:
            print(f"HARNESS-ERROR shard={shard_name}\n{err}", file=sys.stderr)
        return 2 if not violations else 1
    if violations:
        return 1
    if len(nontrivial) < 2:
        print("HARNESS-ERROR fewer than 2 distinct non-trivial cases", file=sys.stderr)
        return 2
    return 0
