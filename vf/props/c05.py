"""C05 - laziness: sources pulled and callables invoked in the stdlib's order."""
from hypothesis import strategies as st

from ..runner import Shard, Violation
from ..tools import ITER_TOOLS
from ..gen import base_case, features
from ..core import expect_return, run_async, run_sync, trace_view, first_diff, OPEN_ORDER_TOOLS

PROPERTY = "C05"
LEVEL = "exploration"
RULE = (
    "C01 cases (every iterator tool, plus the short-circuiting all/any, plus compositions of 2-3 tools in the "
    "pipelines-* shards) with class-based logging "
    "sources and logging callables; the consumer advances a generated number of steps (0..exhaustion, "
    "finite prefix for cycle; any child order for tee). Oracle: the full interleaved event log "
    "(pull / item / end-of-source / call with argument identities / yield / stop / raise) of the "
    "asynchronous tool equals that of the stdlib counterpart driven the same way, after deleting "
    "re-polls of an already exhausted source (they consume nothing); for chain / chain.from_iterable the log also "
    "holds WHEN each re-iterable argument is asked for its iterator (__aiter__ / __iter__). Because the consumer's receipts "
    "are in the log, equality of the logs is equality after every number of steps. "
    "Non-trivial: >= 2 consumer steps and >= 2 items in some source."
)
ASSUMPTIONS = [
    "re-polling an exhausted source is not an observable read-ahead (iterator protocol: it keeps raising)",
    "CPython 3.12 stdlib evaluation order is the reference",
]

TOOLS_C05 = ITER_TOOLS + ["all", "any"]


@st.composite
def cases(draw, name, max_len):
    case = draw(base_case(name, max_len=max_len, steps=draw(st.sampled_from(["full", "partial"]))))
    if name != "iter_sentinel":
        for s in case["srcs"]:
            # "aeager": __anext__ consumes when CALLED - calling it ahead of the await is a read-ahead
            # "areiter": an async ITERABLE whose __aiter__ calls are logged ("open"): chain opens its k-th argument
            # only when it gets there
            s["fl"] = draw(st.sampled_from(["aclass", "aclass", "aeager", "areiter", "aeagerstop"]))
        plain = [s for s in case["srcs"] if s.get("alias") is None and not any(o.get("alias") is not None for o in case["srcs"])]
        if len(case["srcs"]) >= 2 and plain and draw(st.integers(0, 3)) == 0:
            # one of several sources is a real ``range`` (sized, immutable - nothing to observe in it): how far the
            # OTHER sources are read must not depend on what the tool could know about this one
            plain[draw(st.integers(0, len(plain) - 1))]["fl"] = "range"
    if name == "chain_from_iterable":
        case["params"]["outer"]["fl"] = "aclass"
    for spec in case["fns"].values():
        spec["fl"] = draw(st.sampled_from(["def", "async", "falsyobj", "gencoro", "classaw"]))
    case["close"] = False
    return case


def check(case):
    tool = case["tool"]
    bs = run_sync(case)
    ba, outcome = run_async(case)
    expect_return(outcome, f"C05/{tool}")
    opens = tool in OPEN_ORDER_TOOLS
    at, stt = trace_view(ba.ctx.log, opens), trace_view(bs.ctx.log, opens)
    d = first_diff(at, stt)
    if d is not None:
        i, x, y = d
        kinds = {(x or ("-",))[0], (y or ("-",))[0]}
        if kinds & {"pull", "item", "end", "open"}:
            kind = "pull-order"
        elif "call" in kinds:
            kind = "call-order"
        else:
            kind = "yield-order"
        raise Violation(f"C05/{tool}/{kind}", f"event {i}: async={x} stdlib={y}; "
                        f"context async={at[max(0, i - 3):i + 2]} stdlib={stt[max(0, i - 3):i + 2]}")


def nontrivial(case):
    f = features(case)
    return len(case["plan"]) >= 2 and f["max_len"] >= 2


def classify(case):
    f = features(case)
    out = []
    if f["nsrc"] >= 2:
        out.append("multi-source")
    if case["fns"]:
        out.append("has-callable")
    full = f["total"] + 3
    out.append("partial-consumption" if len(case["plan"]) < full else "to-exhaustion")
    return out


def extra(results):
    return {}


def check_pipeline(case):
    from ..pipelines import run_both

    case = dict(case, fl="aclass", mode="hooks", csusp=False)
    outcome, events_s, src, ctx_a, ctx_s, released, close_errors = run_both(case)
    expect_return(outcome, "C05/pipeline")
    at, stt = trace_view(ctx_a.log), trace_view(ctx_s.log)
    d = first_diff(at, stt)
    if d is not None:
        i, x, y = d
        raise Violation("C05/pipeline/pull-order", f"stages={case['stages']} take={case['take']} event {i}: "
                        f"async={x} stdlib={y}")


def shards(tier):
    from ..pipelines import pipelines

    return [Shard(f"pipelines-{i}", check_pipeline, strategy=pipelines(3 if tier == "quick" else 4), n=1000,
                  nontrivial=lambda c: len(c["items"]) >= 2, thorough_mult=15) for i in range(4)] + [
        Shard(name, check, strategy=cases(name, 8 if tier == "quick" else 12), n=600,
              nontrivial=nontrivial if name not in ("all", "any") else (lambda c: features(c)["max_len"] >= 2),
              classify=classify, thorough_mult=25)
        for name in TOOLS_C05
    ]
