"""C19 - asynctools adapters normalise every async shape to the same plain result."""
import functools
import inspect
import itertools

from hypothesis import strategies as st

from ..runner import Shard, Violation
from ..core import expect_return
from ..driver import Ctx, run, loop_mode, close_orphans
from ..values import Item, AwaitableItem, AwaitedDataError
from .. import env

env.setup()
import asyncstdlib as a  # noqa: E402

PROPERTY = "C19"
LEVEL = "exploration"
RULE = (
    "any_iter / await_each: the grid {plain, awaitable} outer x {list, iterator, async iterator} x {plain items, "
    "awaitable items as coroutine / as object with __await__ / as Future-like object that is awaitable AND "
    "iterable / suspending / as generator-based coroutine (types.coroutine)} x lengths 0-6 x every number of "
    "consumer steps 0..len+1 is ENUMERATED completely; items must be the plain list's objects in order, and the "
    "k-th awaitable may only be awaited after the consumer asked for item k (await log interleaved with the "
    "consumer log). apply: Hypothesis draws 0-3 positional and 0-3 keyword arguments as awaitables of three "
    "kinds, or ONE reusable awaitable object passed for several parameters (every await of it yields a new value); result must equal f(*values, **values) and the awaits happen in argument order. sync: Hypothesis "
    "draws a callable flavour (def, async def, partial of async def, callable object, def returning an awaitable, "
    "a class (instances plain or themselves async-callable), bound sync / async method, lambda returning a coroutine, "
    "mixed) and a sequence of 1-4 calls each returning plain / returning an awaitable / raising; calling the "
    "wrapper never raises, awaiting gives the same result or exception object as calling-and-awaiting the "
    "callable; coroutine functions are returned unchanged. Non-trivial: >= 2 items with an awaitable layer "
    "somewhere, or await_each stopped strictly before the end, or apply with positional and keyword awaitables, "
    "or a sync wrapper called >= 2 times with different result kinds."
)
ASSUMPTIONS = ["awaitables are awaited at most once; items are equal-yet-distinguishable objects compared by identity"]


class Aw:
    """awaitable object that is neither a coroutine nor a generator; logs when it is awaited"""

    def __init__(self, ctx, value, log=None, tag=None, susp=0, exc=None):
        self.ctx, self.value, self.log, self.tag, self.susp, self.exc = ctx, value, log, tag, susp, exc

    def __await__(self):
        if self.log is not None:
            self.log.append(("await", self.tag))
        for _ in range(self.susp):
            yield from self.ctx.suspend(("aw", self.tag)).__await__()
        if self.exc is not None:
            raise self.exc
        return self.value


class FalsyAw(Aw):
    """an awaitable that is falsy (e.g. a sized handle that is still empty)"""

    def __bool__(self):
        return False


class GrumpyPlain:
    """a plain (non-awaitable) result whose truth value cannot be determined"""

    def __bool__(self):
        raise RuntimeError("ambiguous truth value")


class AwIter(Aw):
    """awaitable that is ALSO iterable, like asyncio.Future / Task (``__iter__ = __await__``)"""

    __iter__ = Aw.__await__


def wrap(ctx, kind, value, log=None, tag=None):
    if kind == "plain":
        return value
    if kind == "object":
        return Aw(ctx, value, log, tag)
    if kind == "futurelike":
        return AwIter(ctx, value, log, tag)
    if kind == "suspending":
        return Aw(ctx, value, log, tag, susp=1)
    if kind == "gencoro":
        import types

        @types.coroutine
        def gen():
            # generator-based coroutine: awaitable, although not an instance of collections.abc.Awaitable
            if log is not None:
                log.append(("await", tag))
            return value
            yield  # pragma: no cover

        return gen()

    async def coro():
        if log is not None:
            log.append(("await", tag))
        return value

    return coro()


def close_unawaited(objs):
    for o in objs:
        if inspect.iscoroutine(o):
            o.close()


# ---- any_iter / await_each grid ---------------------------------------------------------


def grid():
    out = []
    for outer, container, items, length in itertools.product(
            ("plain", "coroutine", "object", "futurelike", "gencoro"), ("list", "iter", "aiter"),
            ("plain", "coroutine", "object", "suspending", "futurelike", "gencoro"), range(0, 7)):
        for steps in range(0, length + 2):
            out.append({"adapter": "any_iter", "outer": outer, "container": container, "items": items,
                        "length": length, "steps": steps})
            if items != "plain" and length in (1, 3) and outer in ("plain", "coroutine"):
                # the VALUES behind the awaitable items are themselves awaitable objects (handles passed around as
                # data): exactly one layer is resolved, the value is handed on un-awaited
                out.append({"adapter": "any_iter", "outer": outer, "container": container, "items": items,
                            "length": length, "steps": steps, "data": "awaitable"})
    for outer, container, items, length in itertools.product(("plain", "coroutine", "gencoro"), ("list", "genexpr", "aiter"),
                                                             ("plain", "gencoro", "object"), (1, 2, 4)):
        for steps in (length, length + 1):
            out.append({"adapter": "any_iter", "outer": outer, "container": container, "items": items,
                        "length": length, "steps": steps, "data": "generator"})
    for outer, container, first, length in itertools.product(("plain", "gencoro"), ("list", "genexpr", "aiter"),
                                                             ("generator-first", "coroutine-first"), (2, 3, 5)):
        out.append({"adapter": "any_iter", "outer": outer, "container": container, "items": "mixed-generators",
                    "length": length, "steps": length + 1, "data": first})
    for outer, items, length in itertools.product(("plain", "coroutine"), ("plain", "coroutine", "object"), (0, 1, 3)):
        for steps in range(0, length + 2):
            out.append({"adapter": "any_iter", "outer": outer, "container": "logged", "items": items, "length": length,
                        "steps": steps})
    for outer, container, items, length in itertools.product(("plain", "coroutine"), ("callable-list", "callable-aiter"),
                                                             ("plain", "coroutine"), (0, 1, 3)):
        for steps in range(0, length + 2):
            out.append({"adapter": "any_iter", "outer": outer, "container": container, "items": items,
                        "length": length, "steps": steps})
    for items, length in itertools.product(("coroutine", "object", "suspending", "futurelike", "gencoro"), range(0, 7)):
        for container in ("list", "iter", "dual", "logged"):
            for steps in range(0, length + 2):
                out.append({"adapter": "await_each", "container": container, "items": items, "length": length,
                            "steps": steps})
    return out


def check_grid(case):
    ctx = Ctx("a")
    log = []
    plain = [Item(i % 3, i) if case.get("data") != "awaitable" else AwaitableItem(i) for i in range(case["length"])]
    if case.get("data") == "generator":
        # the data are plain generator objects (a batch of lazily computed rows): the same TYPE as a generator-based
        # coroutine, but not awaitable - they are handed on as they are
        plain = [(x for x in (i,)) for i in range(case["length"])]
    if case["items"] == "mixed-generators":
        # generator objects of both kinds in ONE input: plain generators (data, positions 0, 2, ...) next to
        # generator-based coroutines (awaitables, positions 1, 3, ...), or the other way round
        par = 0 if case.get("data") == "generator-first" else 1
        plain = [(x for x in (i,)) if i % 2 == par else Item(i % 3, i) for i in range(case["length"])]
        wrapped = [item if k % 2 == par else wrap(ctx, "gencoro", item, log, k) for k, item in enumerate(plain)]
    else:
        wrapped = [wrap(ctx, case["items"], item, log, k) for k, item in enumerate(plain)]
    if case["container"] == "list":
        container = list(wrapped)
    elif case["container"] == "genexpr":
        container = (w for w in wrapped)
    elif case["container"] == "logged":
        # a re-iterable whose __iter__ is observed: nothing is asked of the argument before the consumer asks for an item
        opened = []

        class Logged:
            def __iter__(self):
                opened.append(len(log))
                return iter(list(wrapped))

        container = Logged()
    elif case["container"] == "dual":
        # an Iterable[Awaitable] (what await_each is documented to take) that ALSO offers the async protocol, with
        # another meaning (a task group: iterating gives the pending awaitables, async-iterating the finished results)
        class Dual:
            def __iter__(self):
                return iter(list(wrapped))

            def __aiter__(self):
                async def results():
                    for k in reversed(range(len(wrapped))):
                        yield ("finished", k)
                return results()

        container = Dual()
    elif case["container"] == "callable-list":
        # a collection object that can ALSO be called (an Enum-like class, a query object with __call__): it is
        # given as the iterable it is - nobody asked for it to be called
        class CallableRows(list):
            def __call__(self, *args, **kwargs):
                log.append(("called-the-iterable",))
                return ["the result of calling it"]

        container = CallableRows(wrapped)
    elif case["container"] == "callable-aiter":
        class CallableStream:
            def __aiter__(self):
                async def rows():
                    for w in wrapped:
                        yield w
                return rows()

            def __call__(self, *args, **kwargs):
                log.append(("called-the-iterable",))
                return ["the result of calling it"]

        container = CallableStream()
    elif case["container"] == "iter":
        container = iter(list(wrapped))
    else:
        async def agen():
            for w in wrapped:
                yield w
        container = agen()
    got = []

    async def consume():
        if case["adapter"] == "any_iter":
            source = wrap(ctx, case["outer"], container)
            it = a.any_iter(source)
        else:
            it = a.await_each(container)
        if case["container"] == "logged" and opened:
            got.append(("iterated-its-argument-before-the-first-request",))
            return
        for k in range(case["steps"]):
            log.append(("ask", k))
            try:
                got.append(await it.__anext__())
            except StopAsyncIteration:
                log.append(("stop", k))
                break
            except AwaitedDataError as exc:
                got.append(("value-was-awaited", exc.args))
                break
            except Exception as exc:  # nothing in these cases fails by itself
                got.append(("the-adapter-raised", repr(exc)[:80]))
                break
        await it.aclose()

    with loop_mode(ctx, "hooks"):
        outcome = run(ctx, consume())
        # (looked at BEFORE the loop's own finalizer gets to close generators nobody holds any more)
        source_open = case["container"] == "aiter" and container.ag_frame is not None
        close_orphans(ctx)
    expect_return(outcome, f"C19/{case['adapter']}")
    n = min(case["steps"], case["length"])
    if case["container"] == "iter" and case["steps"] <= case["length"]:
        # the caller's one-shot iterator was only advanced as far as the consumer asked: the awaitables behind
        # that point are still in it, untouched (a coroutine among them has not been started or closed)
        rest = list(container)
        if len(rest) != case["length"] - n or any(x is not y for x, y in zip(rest, wrapped[n:])):
            raise Violation(f"C19/{case['adapter']}/took-more-from-the-iterator-than-asked",
                            f"{case}: {len(rest)} awaitables left, expected {case['length'] - n}")
        touched = [k + n for k, w in enumerate(rest) if inspect.iscoroutine(w)
                   and inspect.getcoroutinestate(w) != inspect.CORO_CREATED]
        if touched:
            raise Violation(f"C19/{case['adapter']}/touched-awaitables-nobody-asked-for", f"{case}: {touched}")
    if case["adapter"] == "any_iter" and case["container"] == "aiter" and 1 <= case["steps"] <= case["length"] \
            and outcome[0] == "return" and source_open:
        # the consumer closed any_iter before the end: the async iterator it was given - directly or as the result of
        # an awaitable - is closed with it (C04 for the awaitable forms of the argument, which the tool table lacks)
        raise Violation("C19/any_iter/source-not-closed-with-the-adapter", f"{case}")
    close_unawaited(wrapped)
    if len(got) != n or any(x is not y for x, y in zip(got, plain)):
        raise Violation(f"C19/{case['adapter']}/items-differ",
                        f"{case}: got {[getattr(x, 'uid', repr(x)[:40]) for x in got]} expected uids {list(range(n))}")
    if case["steps"] > case["length"] and ("stop", case["length"]) not in log:
        raise Violation(f"C19/{case['adapter']}/did-not-stop", f"{case}")
    if case["items"] != "plain":
        # laziness: awaitable k is awaited after ask k and before ask k+1
        expected = []
        for k in range(case["steps"]):
            expected.append(("ask", k))
            if k < case["length"]:
                if wrapped[k] is not plain[k]:
                    expected.append(("await", k))
            else:
                expected.append(("stop", k))
                break
        if log != expected:
            raise Violation(f"C19/{case['adapter']}/awaited-too-early-or-out-of-order", f"{case}: log={log}")


def grid_nontrivial(case):
    layered = case["items"] != "plain" or case.get("outer", "plain") != "plain"
    if case["adapter"] == "await_each":
        return case["length"] >= 2 and case["steps"] < case["length"]
    return case["length"] >= 2 and layered


# ---- apply -----------------------------------------------------------------------------


@st.composite
def apply_cases(draw):
    # "shared": ONE reusable awaitable object passed for several parameters; every await of it gives a new value
    kinds = st.sampled_from(["coroutine", "object", "suspending", "shared", "shared", "gencoro"])
    return {"adapter": "apply", "pos": draw(st.lists(kinds, max_size=3)),
            "kw": draw(st.lists(st.tuples(st.sampled_from(["a", "b", "c"]), kinds), max_size=3,
                                unique_by=lambda t: t[0])),
            "raises": draw(st.booleans()), "returns": draw(st.sampled_from(["tuple", "tuple", "awaitable"])),
            # the argument at this place (positional ones first) fails when it is awaited
            "fails_at": draw(st.one_of(st.none(), st.none(), st.integers(0, 5)))}


def check_apply(case):
    ctx = Ctx("a")
    log = []
    pos_vals = [Item(0, i) for i in range(len(case["pos"]))]
    kw_vals = {name: Item(1, 10 + i) for i, (name, _) in enumerate(case["kw"])}
    shared_vals = []

    class Shared:
        """reusable awaitable: each await is a separate operation with its own result"""

        def __await__(self):
            n = len(shared_vals)
            log.append(("await", ("shared", n)))
            shared_vals.append(Item(2, 100 + n))
            if n % 2:
                yield from ctx.suspend(("shared", n)).__await__()
            return shared_vals[n]

    shared = Shared()
    arg_boom = KeyError("this argument failed")

    class Failing:
        def __init__(self, tag):
            self.tag = tag

        def __await__(self):
            log.append(("await", self.tag))
            raise arg_boom
            yield  # pragma: no cover

    fails_at = case.get("fails_at")
    if fails_at is not None and fails_at >= len(case["pos"]) + len(case["kw"]):
        fails_at = None
    if fails_at is not None:
        case = dict(case, pos=list(case["pos"]), kw=[list(p) for p in case["kw"]])
        if fails_at < len(case["pos"]):
            case["pos"][fails_at] = "failing"
        else:
            case["kw"][fails_at - len(case["pos"])][1] = "failing"
    pos = [shared if k == "shared" else Failing(("pos", i)) if k == "failing" else wrap(ctx, k, v, log, ("pos", i))
           for i, (k, v) in enumerate(zip(case["pos"], pos_vals))]
    kw = {name: shared if k == "shared" else Failing(("kw", name)) if k == "failing"
          else wrap(ctx, k, kw_vals[name], log, ("kw", name)) for name, k in case["kw"]}
    # expected values / await log: arguments are awaited one by one in argument order
    expected_log, n_shared = [], 0
    for i, k in enumerate(case["pos"]):
        if k == "shared":
            expected_log.append(("await", ("shared", n_shared)))
            pos_vals[i] = ("shared", n_shared)
            n_shared += 1
        else:
            expected_log.append(("await", ("pos", i)))
    for name, k in case["kw"]:
        if k == "shared":
            expected_log.append(("await", ("shared", n_shared)))
            kw_vals[name] = ("shared", n_shared)
            n_shared += 1
        else:
            expected_log.append(("await", ("kw", name)))
    expected_log.append(("call",))
    boom = ValueError("f failed")
    seen = []

    def f(*args, **kwargs):
        seen.append((args, kwargs))
        log.append(("call",))
        if case["raises"]:
            raise boom
        if case.get("returns") == "awaitable":
            # the function's RESULT is an awaitable object (a job handle): apply resolves its arguments, what the
            # function makes of them is handed back as it is
            handle.append(AwaitableItem(("result-of-f",)))
            return handle[0]
        return ("result", args, tuple(kwargs.items()))

    handle = []
    with loop_mode(ctx, "hooks"):
        outcome = run(ctx, a.apply(f, *pos, **kw))
        close_orphans(ctx)
    close_unawaited(pos + list(kw.values()))
    if fails_at is not None:
        # an argument that fails ends the call there and then: nothing behind it is awaited, the function is not
        # called, the caller gets the argument's own exception
        upto = next(i for i, e in enumerate(expected_log)
                    if e == ("await", ("pos", fails_at) if fails_at < len(case["pos"])
                             else ("kw", case["kw"][fails_at - len(case["pos"])][0]))) + 1
        if log != expected_log[:upto]:
            raise Violation("C19/apply/went-on-after-a-failing-argument", f"{case}: {log}")
        if seen:
            raise Violation("C19/apply/function-called-although-an-argument-failed", f"{case}")
        if outcome[0] != "raise" or outcome[1] is not arg_boom:
            raise Violation("C19/apply/exception-not-propagated", f"{case}: {outcome!r}")
        return {"evaluations": 1, "nontrivial": ["x"] if upto < len(expected_log) - 1 else []}
    if len(shared_vals) != n_shared and log == expected_log[:len(log)]:
        raise Violation("C19/apply/await-order", f"{case}: reusable awaitable awaited {len(shared_vals)} times for "
                                                  f"{n_shared} parameters")
    pos_vals = [shared_vals[v[1]] if isinstance(v, tuple) and v[1] < len(shared_vals) else v for v in pos_vals]
    kw_vals = {n: (shared_vals[v[1]] if isinstance(v, tuple) and v[1] < len(shared_vals) else v)
               for n, v in kw_vals.items()}
    if len(seen) != 1:
        raise Violation("C19/apply/function-not-called-once", f"{case}: {len(seen)} calls")
    args, kwargs = seen[0]
    if len(args) != len(pos_vals) or any(x is not y for x, y in zip(args, pos_vals)):
        raise Violation("C19/apply/positional-values-differ", f"{case}: {args}")
    if list(kwargs) != [n for n, _ in case["kw"]] or any(kwargs[n] is not kw_vals[n] for n in kwargs):
        raise Violation("C19/apply/keyword-values-differ", f"{case}: {kwargs}")
    if log != expected_log:
        raise Violation("C19/apply/await-order", f"{case}: {log}")
    if case["raises"]:
        if outcome[0] != "raise" or outcome[1] is not boom:
            raise Violation("C19/apply/exception-not-propagated", repr(outcome))
    elif case.get("returns") == "awaitable":
        if outcome[0] != "return" or outcome[1] is not handle[0]:
            raise Violation("C19/apply/result-differs", f"{outcome!r}: the awaitable result of f was not handed back as it is")
    elif outcome[0] != "return" or outcome[1] != ("result", args, tuple(kwargs.items())):
        raise Violation("C19/apply/result-differs", repr(outcome))


# ---- sync ------------------------------------------------------------------------------


@st.composite
def sync_cases(draw):
    flavour = draw(st.sampled_from(["def", "async", "partial", "obj", "obj-awaitable", "def-mixed", "def-mixed", "def-mixed", "class",
                                    "class-async-call", "method", "async-method", "lambda-coro", "attribute", "wrapped-facade",
                                    "asyncgen-fn", "asyncgen-partial", "partial-kw"]))
    if flavour in ("asyncgen-fn", "asyncgen-partial"):
        kinds = st.just("plain")
    elif flavour in ("partial-kw", "def", "class", "class-async-call", "method", "attribute", "wrapped-facade"):
        kinds = st.sampled_from(["plain", "raise"])
    elif flavour == "def-mixed":
        kinds = st.sampled_from(["plain", "coroutine", "object", "raise", "suspending", "futurelike",
                                 "coroutine-raises", "falsy-awaitable", "grumpy-plain", "gencoro", "plain-generator",
                                 "plain-generator", "cfuture", "cfuture"])
    else:
        kinds = st.sampled_from(["value", "raise"])
    return {"adapter": "sync", "flavour": flavour, "calls": draw(st.lists(kinds, min_size=1, max_size=4)),
            "exc": draw(st.sampled_from(["ValueError", "TypeError", "AttributeError", "KeyError", "RuntimeError"]))}


def check_sync(case):
    ctx = Ctx("a")
    flavour = case["flavour"]
    calls = iter(list(enumerate(case["calls"])))
    errors = {}
    values = {}

    exc_type = {"ValueError": ValueError, "TypeError": TypeError, "AttributeError": AttributeError,
                "KeyError": KeyError, "RuntimeError": RuntimeError}[case.get("exc", "ValueError")]

    def outcome_for(k, kind):
        if kind == "raise":
            errors[k] = exc_type(f"call {k}")
            raise errors[k]
        values[k] = Item(0, k)
        return values[k]

    def plain_def(arg):
        k, kind = next(calls)
        if kind in ("plain", "raise", "value"):
            return outcome_for(k, kind)
        if kind == "falsy-awaitable":
            values[k] = Item(0, k)
            return FalsyAw(ctx, values[k])
        if kind == "grumpy-plain":
            values[k] = GrumpyPlain()
            return values[k]
        if kind == "cfuture":
            import concurrent.futures

            values[k] = concurrent.futures.Future()  # a handle of ANOTHER kind of concurrency: not awaitable, plain data
            return values[k]
        if kind == "plain-generator":
            values[k] = (x for x in (k,))  # a generator object is a plain result (only generator-based COROUTINES are awaited)
            return values[k]
        if kind == "coroutine-raises":
            # a plain function returning an awaitable whose await fails
            errors[k] = exc_type(f"call {k}")
            return Aw(ctx, None, exc=errors[k])
        values[k] = Item(0, k)
        return wrap(ctx, kind, values[k])

    async def coro_fn(arg):
        k, kind = next(calls)
        await ctx.suspend(("fn", k))
        return outcome_for(k, kind)

    async def coro_fn2(extra, arg):
        return await coro_fn(arg)

    class Obj:
        def __call__(self, arg):
            return coro_fn(arg)

    class ObjAw:
        def __call__(self, arg):
            k, kind = next(calls)
            if kind == "raise":
                errors[k] = exc_type(f"call {k}")
                return Aw(ctx, None, exc=errors[k])
            values[k] = Item(0, k)
            return Aw(ctx, values[k], susp=1)

    class Made:
        """a class is a callable too: calling it gives an instance (which is the plain result)"""

        def __init__(self, arg):
            k, kind = next(calls)
            if kind == "raise":
                errors[k] = exc_type(f"call {k}")
                raise errors[k]
            values[k] = self

    class MadeAsyncCall(Made):
        # the INSTANCES are async callables; constructing one is an ordinary synchronous call
        async def __call__(self, arg):
            return arg

    class Holder:
        def method(self, arg):
            return plain_def(arg)

        async def amethod(self, arg):
            return await coro_fn(arg)

    holder = Holder()
    @functools.wraps(coro_fn)
    def facade(arg):
        """a synchronous front (blocking runner, result cache) of an async def: __wrapped__ points at a coroutine
        function, the callable itself is an ordinary function returning a plain value"""
        return plain_def(arg)

    async def agen_fn(arg):
        # an async generator FUNCTION is a plain function as far as calling it goes: the call returns at once, with
        # an (async generator) object that is not awaitable - the plain result
        k, kind = next(calls)
        yield k

    def kwfn(arg, mode="default"):
        k, kind = next(calls)
        if kind == "raise":
            errors[k] = exc_type(f"call {k}")
            raise errors[k]
        values[k] = ("called-with-mode", mode, k)
        if mode != "call":
            values[k] = ("WRONG: the keyword given at call time did not win over the partial's", mode)
            return ("mode", mode)
        return values[k]

    target = {"attribute": None, "wrapped-facade": facade, "asyncgen-fn": agen_fn,
              # a partial with a frozen keyword, called with the same keyword: the call's value wins (functools.partial)
              "partial-kw": functools.partial(kwfn, mode="frozen"),
              "asyncgen-partial": functools.partial(agen_fn), "class": Made, "class-async-call": MadeAsyncCall, "method": holder.method,
              "async-method": holder.amethod, "lambda-coro": lambda arg: coro_fn(arg),
              "def": plain_def, "def-mixed": plain_def, "async": coro_fn,
              "partial": functools.partial(coro_fn2, "x"), "obj": Obj(), "obj-awaitable": ObjAw()}[flavour]
    if flavour == "attribute":
        # the wrapped function is stored on a class and called through an instance, like any plain function
        def hook(self, arg):
            return plain_def((self.tag, arg))

        class Owner:
            tag = "owner"
            method = a.sync(hook)

        wrapper = Owner().method
    else:
        wrapper = a.sync(target)
    if flavour in ("async", "partial", "async-method") and wrapper is not target:
        raise Violation("C19/sync/coroutine-function-not-returned-unchanged", flavour)
    for k, kind in enumerate(case["calls"]):
        try:
            awaitable = wrapper("arg") if flavour != "partial-kw" else wrapper("arg", mode="call")
        except Exception as exc:
            raise Violation("C19/sync/calling-the-wrapper-raised", f"{case} call {k}: {exc!r}") from None
        if not inspect.isawaitable(awaitable):
            raise Violation("C19/sync/wrapper-did-not-return-an-awaitable", f"{case} call {k}: {awaitable!r}")
        outcome = run(ctx, _await(awaitable))
        if flavour in ("asyncgen-fn", "asyncgen-partial"):
            if outcome[0] != "return" or not inspect.isasyncgen(outcome[1]):
                raise Violation("C19/sync/result-differs", f"{case} call {k}: {outcome!r} (expected the async generator object)")
            run(ctx, outcome[1].aclose())
            continue
        if kind in ("raise", "coroutine-raises"):
            if outcome[0] != "raise" or outcome[1] is not errors.get(k):
                raise Violation("C19/sync/exception-differs", f"{case} call {k}: {outcome!r}")
        elif outcome[0] != "return" or outcome[1] is not values.get(k):
            raise Violation("C19/sync/result-differs", f"{case} call {k}: {outcome!r}")


async def _await(x):
    return await x


def shards(tier):
    cells = grid()
    k = 8
    out = [Shard(f"grid-{j}", check_grid, cases=(lambda part=cells[j::k]: part), nontrivial=grid_nontrivial,
                 exhaustive=True) for j in range(k)]
    out.append(Shard("apply", check_apply, strategy=apply_cases(), n=800,
                     nontrivial=lambda c: bool(c["pos"]) and bool(c["kw"]), thorough_mult=10))
    out.append(Shard("sync", check_sync, strategy=sync_cases(), n=800,
                     nontrivial=lambda c: len(set(c["calls"])) >= 2, thorough_mult=10))
    return out


EXHAUSTIVE_SCOPE = ("grid-", "the any_iter / await_each shape x length x steps grid is enumerated completely by the "
                    "grid-* shards; apply and sync cases are sampled")
