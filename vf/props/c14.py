"""C14 - ExitStack unwinds like nested async-with; each exit runs exactly once."""
import itertools

from hypothesis import strategies as st

from ..runner import Shard, Violation
from ..core import expect_return
from ..driver import Ctx, run, loop_mode, close_orphans
from .. import env

env.setup()
import asyncstdlib as a  # noqa: E402

PROPERTY = "C14"
LEVEL = "exploration"
RULE = (
    "Programs: a stack of 0-4 entries, each {async CM, sync CM (entered through enter_context), pushed async "
    "exit callable, pushed sync exit callable, pushed async / sync CM object, async callback with args, sync callback with "
    "args} x behaviour {falsy, truthy, raise new, raise new only while handling, re-raise the received "
    "exception, raise a new BaseException that is not an Exception, raise a new exception that already has a "
    "context chain, raise StopIteration / StopAsyncIteration, enter fails (CMs)} x block outcome {normal, raises}; the space for <= 2 entries is enumerated "
    "completely (every tier), 3-4 entries are sampled by Hypothesis. Reference: the same entries written as "
    "genuinely nested async-with / with statements in ONE coroutine frame (generated source; callables and "
    "callbacks wrapped in a trivial manager, synchronous ones in a synchronous manager). "
    "Compared: the ordered log of (entry, which exception object it received), enters, callback arguments, and "
    "the final outcome (which object propagates, or suppression). Histories: up to 20 operations from "
    "{register an entry, register an exit that registers a late-comer / that calls pop_all() while the stack "
    "unwinds, aclose, pop_all (then continue on either stack), leave the block with/without an "
    "exception, unwind again}; model = list of pending exits per stack object; at the end every stack is "
    "closed and every successfully registered exit must have run exactly once overall, never on a stack that "
    "gave it away, never for a failed enter. A watchdog turns non-termination into a violation. "
    "Non-trivial: >= 2 entries with at least one raise or suppress, or a history with >= 2 unwinds."
)
ASSUMPTIONS = [
    "only WHICH object propagates and what each exit RECEIVES are compared; __context__/__cause__ chains are not part of the statement",
    "exits never raise an exception that is already part of the in-flight exception's context chain",
]

KINDS = ["nullsub", "acm", "scm", "push-async", "push-sync", "push-cm", "push-scm", "callback-async", "callback-sync",
         "dual", "push-dual"]
HISTORY_KINDS = [k for k in KINDS if k != "nullsub"]  # (the run-once histories build their own exits)
BEHAVIOURS = ["falsy", "truthy", "raise", "raise-if-exc", "reraise", "raise-base", "raise-chained", "grumpy-result", "raise-block",
              "raise-stop", "raise-stop-async", "raise-chained-unhashable"]


# keyword arguments of callbacks under names the stack's own methods use for their parameters
CB_KW = {"callback": "cb", "self": "me", "exit": "x", "args": (1,), "kwargs": {"k": 1}}


class New(Exception):
    pass


class NewBase(BaseException):
    """like a cancellation: not an Exception"""


class Block(Exception):
    pass


class UnhashableError(Exception):
    """an exception class with value equality and therefore no hash (a plain dataclass exception)"""

    def __eq__(self, other):
        return type(other) is type(self) and other.args == self.args

    __hash__ = None


class EnterAttributeError(AttributeError):
    """a manager's own __aenter__ / __enter__ fails with an AttributeError (a half-initialised resource)"""


class GrumpyResult:
    """an exit result whose truth value cannot be determined (like an array)"""

    def __init__(self, i):
        self.i = i

    def __bool__(self):
        raise New(("bool", self.i))


def role(exc, block_exc):
    if exc is None:
        return None
    if exc is block_exc:
        return "block"
    if isinstance(exc, (New, NewBase, EnterAttributeError)):
        return ("new", exc.args[0])
    if isinstance(exc, (StopIteration, StopAsyncIteration)) and exc.args and isinstance(exc.args[0], tuple):
        return (type(exc).__name__,) + exc.args[0]
    return ("other", type(exc).__name__)


BLOCK_REF = [None]
STACK_REF = [None]  # the stack of the program that is running (library side only)
AW_VALUES = [False]  # do the managers of the program that is running hand out awaitable handles


def behave(i, behaviour, received):
    """what exit ``i`` does when it receives ``received``"""
    if behaviour == "raise-block":
        # raises the very exception object of the block again, whatever it received (the "remember the
        # first error and report it at the end" pattern) - also after an inner exit suppressed it
        if BLOCK_REF[0] is not None:
            raise BLOCK_REF[0]
        return False
    if behaviour == "falsy":
        return False
    if behaviour == "truthy":
        return True
    if behaviour == "raise" or (behaviour == "raise-if-exc" and received is not None):
        raise New(i)
    if behaviour == "grumpy-result":
        # only while an exception is in flight: a with statement does not even look at the result of
        # __exit__ after a normal block, whereas every ExitStack (contextlib's too) tests it always
        return GrumpyResult(i) if received is not None else False
    if behaviour == "raise-base":
        raise NewBase(i)
    if behaviour == "raise-stop":
        # the protocol exceptions are ordinary exceptions to a with statement (a coroutine FRAME they leave turns
        # StopIteration into RuntimeError - on both sides alike)
        raise StopIteration(("stop", i))
    if behaviour == "raise-stop-async":
        raise StopAsyncIteration(("stop", i))
    if behaviour == "raise-chained-unhashable":
        # ... whose context chain contains an exception that cannot be hashed (value equality, no __hash__)
        try:
            try:
                raise UnhashableError(("inner", i))
            except UnhashableError:
                raise LookupError(("middle", i))
        except LookupError:
            raise New(i)
    if behaviour == "raise-chained":
        # a new exception that already carries a context chain of its own
        try:
            try:
                raise KeyError(("inner", i))
            except KeyError:
                raise LookupError(("middle", i))
        except LookupError:
            raise New(i)
    if behaviour == "reraise" and received is not None:
        raise received
    return False


def cb_args(style, i):
    """(args, kwargs) a callback is registered with: everything, nothing at all, positional only, keyword only"""
    if style == "bare":
        return (), {}
    if style == "pos":
        return ("arg", i), {}
    if style == "kw":
        return (), dict(CB_KW, kw=i)
    return ("arg", i), dict(CB_KW, kw=i)


def _enter_value(i):
    """what ``__enter__`` / ``__aenter__`` hand out: a plain tuple, or - case flag "aw_values" - a handle that is itself
    awaitable (a job, a future): the with statement binds it as it is, nobody awaits it"""
    if AW_VALUES[0]:
        from ..values import AwaitableItem

        return AwaitableItem(("value", i))
    return ("value", i)


def _seen(value):
    from ..values import AwaitableItem

    return ("awaitable-handle", value.uid) if isinstance(value, AwaitableItem) else value


def entry_objects(i, kind, behaviour, log, block_ref, cb_style="full"):
    """(thing to register on the stack, equivalent context manager for the nested reference)"""

    def record(received):
        log.append(("exit", i, role(received, block_ref[0])))

    async def close_own():
        # behaviour "close-own" of the exit registered FIRST: it closes the stack it is registered on while that
        # stack is unwinding - there is nothing left on it by then, so this is a falsy exit like any other (the
        # nested reference has no stack: STACK_REF is empty there)
        if behaviour == "close-own" and i == 0 and STACK_REF[0] is not None:
            await STACK_REF[0].aclose()

    class ACM:
        async def __aenter__(self):
            log.append(("enter", i))
            if behaviour == "enter-fails":
                raise New(("enter", i))
            if behaviour == "enter-fails-attr":
                raise EnterAttributeError(("enter", i))
            return _enter_value(i)

        async def __aexit__(self, et, ev, tb):
            record(ev)
            await close_own()
            return behave(i, behaviour, ev)

    class SCM:
        def __enter__(self):
            log.append(("enter", i))
            if behaviour == "enter-fails":
                raise New(("enter", i))
            if behaviour == "enter-fails-attr":
                raise EnterAttributeError(("enter", i))
            return _enter_value(i)

        def __exit__(self, et, ev, tb):
            record(ev)
            return behave(i, behaviour, ev)

    class DualCM(ACM):
        """offers the synchronous protocol as well (only to tell its user to use ``async with``): an async-neutral
        stack must pick the asynchronous one, as ``async with`` does"""

        def __enter__(self):
            log.append(("wrong-protocol-enter", i))
            raise TypeError("use async with")

        def __exit__(self, et, ev, tb):
            log.append(("wrong-protocol-exit", i))
            return False

    async def aexit(et, ev, tb):
        record(ev)
        await close_own()
        return behave(i, behaviour, ev)

    def sexit(et, ev, tb):
        record(ev)
        return behave(i, behaviour, ev)

    async def acallback(*args, **kwargs):
        log.append(("callback", i, args, tuple(sorted(kwargs.items()))))
        await close_own()
        return behave(i, behaviour, None)

    def scallback(*args, **kwargs):
        log.append(("callback", i, args, tuple(sorted(kwargs.items()))))
        return behave(i, behaviour, None)

    class WrapExit:
        """trivial manager giving a bare exit callable the place of a nested with statement"""

        def __init__(self, fn, is_async):
            self.fn, self.is_async = fn, is_async

        async def __aenter__(self):
            return None

        async def __aexit__(self, et, ev, tb):
            if self.is_async:
                return await self.fn(et, ev, tb)
            return self.fn(et, ev, tb)

    class SyncWrapExit:
        """a plain exit callable in the place of a nested (synchronous) with statement"""

        def __init__(self, fn):
            self.fn = fn

        def __enter__(self):
            return None

        def __exit__(self, et, ev, tb):
            return self.fn(et, ev, tb)

    class WrapCallback:
        def __init__(self, fn, is_async):
            self.fn, self.is_async = fn, is_async

        async def __aenter__(self):
            return None

        async def __aexit__(self, et, ev, tb):
            args, kwargs = cb_args(cb_style, i)
            if self.is_async:
                await self.fn(*args, **kwargs)
            else:
                self.fn(*args, **kwargs)
            return False

    if kind == "nullsub":
        # a subclass of the library's own nullcontext that adds an exit of its own (a "do nothing, but log" manager):
        # a manager like any other - entered, and exited with whatever leaves the block
        class LoggingNull(a.nullcontext):
            async def __aexit__(self, et, ev, tb):
                record(ev)
                return behave(i, behaviour, ev)

        cm = LoggingNull(("value", i))
        return ("enter", cm), ("async", cm)
    if kind == "acm":
        cm = ACM()
        return ("enter", cm), ("async", cm)
    if kind == "dual":
        cm = DualCM()
        return ("enter", cm), ("async", cm)
    if kind == "push-dual":
        cm = DualCM()
        return ("push", cm), ("async", WrapExit(cm.__aexit__, True))
    if kind == "scm":
        cm = SCM()
        return ("enter", cm), ("sync", cm)
    if kind == "push-cm":
        cm = ACM()
        # pushed, not entered: only its exit is used
        return ("push", cm), ("async", WrapExit(cm.__aexit__, True))
    if kind == "push-scm":
        cm = SCM()
        return ("push", cm), ("sync-quiet", SyncWrapExit(cm.__exit__))
    if kind == "push-async":
        return ("push", aexit), ("async", WrapExit(aexit, True))
    if kind == "push-sync":
        return ("push", sexit), ("sync-quiet", SyncWrapExit(sexit))
    if kind == "callback-async":
        return ("callback", acallback), ("async", WrapCallback(acallback, True))
    return ("callback", scallback), ("async", WrapCallback(scallback, False))


def _objects(case, log, block_ref):
    """(stack thing, nested reference) per entry; an entry whose kind ends in '+same' is the very same object as the
    closest earlier entry of that kind (a re-entrant manager entered again, a handler pushed twice)"""
    out = []
    for i, (k, b) in enumerate(case["entries"]):
        base = k[:-5] if k.endswith("+same") else k
        prev = next((out[j] for j in range(i - 1, -1, -1) if case["entries"][j][0].replace("+same", "") == base), None)
        if k.endswith("+same") and prev is not None:
            out.append(prev)
        else:
            out.append(entry_objects(i, base, b, log, block_ref, case.get("cb_style", "full")))
    return out


async def run_stack(case, log):
    block_ref = [None]
    things = [pair[0] for pair in _objects(case, log, block_ref)]
    try:
        async with a.ExitStack() as stack:
            STACK_REF[0] = stack
            for how, thing in things:
                if how == "enter":
                    value = await stack.enter_context(thing)
                    log.append(("entered", _seen(value)))
                elif how == "push":
                    returned = stack.push(thing)
                    if returned is not thing:
                        log.append(("push-did-not-return-its-argument",))
                else:
                    args, kwargs = cb_args(case.get("cb_style", "full"), things.index((how, thing)))
                    returned = stack.callback(thing, *args, **kwargs)
                    if returned is not thing:
                        log.append(("callback-did-not-return-its-argument",))
            log.append(("block",))
            if case["block"] == "raises":
                block_ref[0] = BLOCK_REF[0] = Block("block")
                raise block_ref[0]
    except BaseException as exc:  # noqa: B902
        return ("raise", role(exc, block_ref[0]))
    finally:
        BLOCK_REF[0] = STACK_REF[0] = None
    return ("ok",)


_NESTED = {}


def nested_function(hows):
    """``async def nested(cms, log, block)``: genuinely nested with statements in ONE coroutine frame"""
    fn = _NESTED.get(hows)
    if fn is None:
        lines = ["async def nested(cms, log, block):"]
        indent = "    "
        for i, how in enumerate(hows):
            lines.append(f"{indent}{'async ' if how == 'async' else ''}with cms[{i}] as value{i}:")  # sync | sync-quiet | async
            indent += "    "
            if how == "sync":
                lines.append(f"{indent}log.append(('entered', seen(value{i})))")
            else:
                lines.append(f"{indent}if value{i} is not None:")
                lines.append(f"{indent}    log.append(('entered', seen(value{i})))")
        lines.append(f"{indent}block()")
        scope = {"seen": _seen}
        exec("\n".join(lines), scope)  # noqa: S102 - source generated from a tuple of 'sync'/'async'
        fn = _NESTED[hows] = scope["nested"]
    return fn


async def run_nested(case, log):
    block_ref = [None]
    refs = [pair[1] for pair in _objects(case, log, block_ref)]

    def block():
        log.append(("block",))
        if case["block"] == "raises":
            block_ref[0] = BLOCK_REF[0] = Block("block")
            raise block_ref[0]

    try:
        await nested_function(tuple(how for how, _ in refs))([cm for _, cm in refs], log, block)
    except BaseException as exc:  # noqa: B902
        return ("raise", role(exc, block_ref[0]))
    finally:
        BLOCK_REF[0] = None
    return ("ok",)


def check_program(case):
    alog, slog = [], []
    ctx = Ctx("a")
    AW_VALUES[0] = bool(case.get("aw_values"))
    try:
        got = expect_return(run(ctx, run_stack(case, alog)), "C14/program")
        want = expect_return(run(Ctx("s"), run_nested(case, slog)), "C14/reference")
    finally:
        AW_VALUES[0] = False
    desc = f"entries={case['entries']} block={case['block']}"
    if alog != slog:
        for i, (x, y) in enumerate(itertools.zip_longest(alog, slog)):
            if x != y:
                kind = "exit-order-or-received-exception-differs"
                if (x and x[0] == "callback") or (y and y[0] == "callback"):
                    kind = "callback-differs"
                raise Violation(f"C14/{kind}", f"{desc} event {i}: stack={x} nested={y}")
    if got != want:
        raise Violation("C14/outcome-differs", f"{desc}: stack={got} nested={want}")


def entry_space():
    out = []
    for kind in KINDS:
        behaviours = list(BEHAVIOURS)
        if kind in ("acm", "scm", "dual"):
            behaviours.append("enter-fails")
            behaviours.append("enter-fails-attr")
        if kind.startswith("callback"):
            behaviours = ["falsy", "truthy", "raise", "raise-base"]
        if kind in ("acm", "push-async", "push-cm", "callback-async"):
            behaviours.append("close-own")
        out.extend((kind, b) for b in behaviours)
    return out


def small_programs():
    space = entry_space()
    out = []
    for n in (0, 1, 2):
        for entries in itertools.product(space, repeat=n):
            for block in ("normal", "raises"):
                out.append({"entries": [list(e) for e in entries], "block": block})
                if any(k.startswith("callback") for k, _ in entries):
                    out.append({"entries": [list(e) for e in entries], "block": block, "cb_style": "bare"})
                if n == 1 and entries[0][0] in ("acm", "scm", "dual"):
                    out.append({"entries": [list(e) for e in entries], "block": block, "aw_values": True})
    return out


@st.composite
def programs(draw, lo, hi):
    space = entry_space()
    entries = [list(e) for e in draw(st.lists(st.sampled_from(space), min_size=lo, max_size=hi))]
    if len(entries) >= 2 and draw(st.integers(0, 2)) == 0:
        # the very same manager / handler object is registered once more (re-entrant managers, shared handlers)
        j = draw(st.integers(1, len(entries) - 1))
        src = entries[draw(st.integers(0, j - 1))]
        if src[1] not in ("enter-fails", "enter-fails-attr", "close-own"):
            entries[j] = [src[0].replace("+same", "") + "+same", src[1]]
    return {"entries": entries, "block": draw(st.sampled_from(["normal", "raises"])),
            "cb_style": draw(st.sampled_from(["full", "bare", "bare", "pos", "kw"])),
            "aw_values": draw(st.sampled_from([False, False, True]))}


def program_nontrivial(case):
    return len(case["entries"]) >= 2 and any(b != "falsy" for _, b in case["entries"])


# ---------------------------------------------------------------------------
# histories: run-once


@st.composite
def histories(draw, tier):
    op = st.one_of(
        st.tuples(st.just("register"), st.sampled_from(HISTORY_KINDS), st.sampled_from(["falsy", "falsy", "truthy", "raise", "enter-fails", "raise-base"])),
        st.tuples(st.just("register"), st.sampled_from(HISTORY_KINDS), st.sampled_from(["falsy", "falsy", "truthy", "raise", "enter-fails", "raise-base"])),
        st.tuples(st.just("register-registering"), st.sampled_from(["push-async", "push-sync", "callback-sync"])),
        st.tuples(st.just("register-popping"), st.sampled_from(["push-async", "push-sync", "callback-sync"])),
        st.tuples(st.just("register-entering"), st.sampled_from(["push-async", "push-sync"])),
        st.tuples(st.just("push-stack"), st.integers(0, 3)),
        st.tuples(st.just("aclose")),
        st.tuples(st.just("pop_all"), st.booleans()),
        st.tuples(st.just("leave"), st.booleans()),
        st.tuples(st.just("switch"), st.integers(0, 3)),
    )
    return {"ops": [list(o) for o in draw(st.lists(op, max_size=20 if tier == "quick" else 35))]}


def check_history(case):
    ctx = Ctx("a")
    ran = []          # (exit id, stack index it ran on)
    owner = {}        # exit id -> index of the stack that currently owns it
    failed_enter = set()
    registered_late = []
    unwinds = [0]

    async def history():
        stacks = [a.ExitStack()]
        cur = 0
        next_id = 0
        problems = []

        def make(eid, kind, behaviour):
            def note():
                ran.append((eid, running_on[0]))

            class ACM:
                async def __aenter__(self):
                    if behaviour == "enter-fails":
                        raise New(("enter", eid))
                    return None

                async def __aexit__(self, et, ev, tb):
                    note()
                    return behave(eid, behaviour, ev)

            class SCM:
                def __enter__(self):
                    if behaviour == "enter-fails":
                        raise New(("enter", eid))
                    return None

                def __exit__(self, et, ev, tb):
                    note()
                    return behave(eid, behaviour, ev)

            async def aexit(et, ev, tb):
                note()
                return behave(eid, behaviour, ev)

            def sexit(et, ev, tb):
                note()
                return behave(eid, behaviour, ev)

            async def acb():
                note()
                return behave(eid, behaviour, None)

            def scb():
                note()
                return behave(eid, behaviour, None)

            class Dual(ACM):
                def __enter__(self):
                    raise TypeError("use async with")

                def __exit__(self, et, ev, tb):
                    ran.append((("wrong-protocol", eid), running_on[0]))
                    return False

            return {"dual": Dual(), "push-dual": Dual(),
                    "acm": ACM(), "scm": SCM(), "push-cm": ACM(), "push-scm": SCM(), "push-async": aexit,
                    "push-sync": sexit,
                    "callback-async": acb, "callback-sync": scb}[kind]

        running_on = [None]
        pushed = {}   # stack index -> indexes of the stacks that were pushed onto it (their __aexit__ is one of its exits)
        has_push = any(o[0] == "push-stack" for o in case["ops"])
        reg_seq = {}  # exit id -> how many exits had been registered (anywhere) before it

        def mark(e):
            reg_seq[e] = len(reg_seq)

        unwind_start = [0]
        moved_away = []

        async def unwind(idx, with_exc):
            unwinds[0] += 1
            running_on[0] = idx
            family = [idx] + list(pushed.get(idx, ()))
            expected = sorted(e for e, o in owner.items() if o in family)
            before = unwind_start[0] = len(ran)
            del moved_away[:]
            late_before = len(registered_late)
            seq_before = len(reg_seq)
            try:
                if with_exc:
                    exc = Block("leave")
                    try:
                        await stacks[idx].__aexit__(type(exc), exc, exc.__traceback__)
                    except BaseException:  # noqa: B902
                        pass
                else:
                    try:
                        await stacks[idx].aclose()
                    except BaseException:  # noqa: B902
                        pass
            finally:
                running_on[0] = None
            ran_now = sorted(e for e, _ in ran[before:])
            # exits registered on THIS stack while it was unwinding run in the same unwind
            # (a stack that was pushed onto this one is unwound by it - with everything registered on it by then)
            expected = sorted({e for e in expected if e not in moved_away} |
                              {e for e in registered_late[late_before:] if owner.get(e) in family})
            if ran_now != expected:
                problems.append(("unwind-ran-wrong-exits", f"stack {idx}: ran {ran_now} expected {expected}"))
            # last in, first out - also for exits that came over from another stack by pop_all(): those that were
            # registered before this unwind began run in the reverse order of their registration (ids count up)
            early = [reg_seq[e] for e, _ in ran[before:] if e in reg_seq and reg_seq[e] < seq_before]
            if early != sorted(early, reverse=True) and not has_push:  # (a pushed stack is ONE exit of its host)
                problems.append(("exits-not-in-reverse-registration-order",
                                 f"stack {idx}: ran {[e for e, _ in ran[before:]]} registered as {early}"))
            for e in expected:
                owner[e] = None
            pushed.pop(idx, None)

        for op in case["ops"]:
            if problems:
                break
            name = op[0]
            if name in ("register-registering", "register-popping", "register-entering") and has_push:
                continue  # (kept apart from stacks pushed onto stacks: one kind of indirection per history)
            if name == "register":
                _, kind, behaviour = op
                if behaviour == "enter-fails" and kind not in ("acm", "scm", "dual"):
                    behaviour = "falsy"
                if kind.startswith("callback") and behaviour == "truthy":
                    behaviour = "falsy"
                eid = next_id
                next_id += 1
                thing = make(eid, kind, behaviour)
                stack = stacks[cur]
                try:
                    if kind in ("acm", "scm", "dual"):
                        await stack.enter_context(thing)
                    elif kind.startswith("push"):
                        stack.push(thing)
                    else:
                        stack.callback(thing)
                except New:
                    failed_enter.add(eid)
                    continue
                mark(eid)
                owner[eid] = cur
            elif name == "register-registering":
                # an exit that, while the stack unwinds, registers one more callback on that same stack:
                # the late-comer is the most recently registered exit and must run in the SAME unwind
                eid, late = next_id, next_id + 1
                next_id += 2
                stack = stacks[cur]

                def late_cb(late=late):
                    ran.append((late, running_on[0]))

                def registering(*exc, eid=eid, stack=stack, late_cb=late_cb, late=late, home=cur):
                    ran.append((eid, running_on[0]))
                    # registers on the stack object it was created for (which may have given this very
                    # exit away through pop_all in the meantime)
                    stack.callback(late_cb)
                    mark(late)
                    owner[late] = home
                    registered_late.append(late)
                    return False

                if op[1] == "push-async":
                    async def aregistering(*exc, inner=registering):
                        return inner(*exc)
                    stack.push(aregistering)
                elif op[1] == "push-sync":
                    stack.push(registering)
                else:
                    stack.callback(registering)
                mark(eid)
                owner[eid] = cur
            elif name == "push-stack":
                # another ExitStack is an exit like any other object with __aexit__: the host calls it when its turn
                # comes, and THEN it unwinds whatever is registered on it by then
                j = op[1] % len(stacks)
                taken = {x for xs in pushed.values() for x in xs}
                if j != cur and j not in taken and cur not in taken and not pushed.get(j):
                    stacks[cur].push(stacks[j])
                    pushed.setdefault(cur, []).append(j)
            elif name == "register-entering":
                # a composite resource: while it is being entered, the manager registers a helper callback on the
                # very stack it is entered on.  The helper was registered first, so it is unwound AFTER the manager
                eid, helper = next_id, next_id + 1
                next_id += 2
                stack = stacks[cur]

                def helper_cb(helper=helper):
                    ran.append((helper, running_on[0]))

                class EnteringCM:
                    async def __aenter__(self_inner, stack=stack, helper=helper, home=cur):  # noqa: N805
                        stack.callback(helper_cb)
                        mark(helper)
                        owner[helper] = home
                        return None

                    async def __aexit__(self_inner, et, ev, tb, eid=eid):  # noqa: N805
                        ran.append((eid, running_on[0]))
                        return False

                class EnteringSCM:
                    def __enter__(self_inner, stack=stack, helper=helper, home=cur):  # noqa: N805
                        stack.callback(helper_cb)
                        mark(helper)
                        owner[helper] = home
                        return None

                    def __exit__(self_inner, et, ev, tb, eid=eid):  # noqa: N805
                        ran.append((eid, running_on[0]))
                        return False

                await stack.enter_context(EnteringCM() if op[1] != "push-sync" else EnteringSCM())
                mark(eid)
                owner[eid] = cur
            elif name == "register-popping":
                # an exit that, while it runs, takes everything still pending on its stack away with pop_all():
                # those exits now belong to the new stack and must not run in the unwind that is under way
                eid = next_id
                next_id += 1
                stack = stacks[cur]

                def popping(*exc, eid=eid, stack=stack, home=cur):
                    ran.append((eid, running_on[0]))
                    done_now = {e for e, _ in ran[unwind_start[0]:]} if running_on[0] is not None else set()
                    stacks.append(stack.pop_all())
                    for e, o in list(owner.items()):
                        if o == home and e not in done_now:
                            owner[e] = len(stacks) - 1
                            moved_away.append(e)
                    return False

                if op[1] == "push-async":
                    async def apopping(*exc, inner=popping):
                        return inner(*exc)
                    stack.push(apopping)
                elif op[1] == "push-sync":
                    stack.push(popping)
                else:
                    stack.callback(popping)
                mark(eid)
                owner[eid] = cur
            elif name == "aclose":
                await unwind(cur, False)
            elif name == "leave":
                await unwind(cur, op[1])
            elif name == "pop_all":
                new = stacks[cur].pop_all()
                stacks.append(new)
                if cur in pushed:
                    pushed[len(stacks) - 1] = pushed.pop(cur)
                for e, o in owner.items():
                    if o == cur:
                        owner[e] = len(stacks) - 1
                if op[1]:
                    cur = len(stacks) - 1
            elif name == "switch":
                cur = op[1] % len(stacks)
        # finally every stack is closed (twice: a completed unwind must not run anything again)
        for _round in range(4):  # an exit may register a late-comer on a stack that was closed already
            for idx in range(len(stacks) + 8):
                if idx >= len(stacks):
                    break  # (popping exits append new stacks while the loop runs)
                if problems:
                    break
                await unwind(idx, False)
                await unwind(idx, False)
        if problems:
            return problems[0]
        counts = {}
        for e, _ in ran:
            counts[e] = counts.get(e, 0) + 1
        for e in failed_enter:
            if counts.get(e):
                return ("failed-enter-was-exited", f"exit {e}")
        registered = [e for e in owner]
        bad = {e: counts.get(e, 0) for e in registered if counts.get(e, 0) != 1}
        # (an exit registered late on a stack that is never unwound again would be owed at the very end;
        #  the final double close of every stack above takes care of that)
        if bad:
            return ("exit-not-run-exactly-once", f"{bad}")
        return None

    problem = expect_return(run(ctx, history()), "C14/history")
    if problem:
        raise Violation(f"C14/{problem[0]}", f"{problem[1]} ops={case['ops']}")
    return {"evaluations": 1, "nontrivial": ["x"] if unwinds[0] >= 4 and len(case["ops"]) >= 3 else [],
            "labels": {}}


def shards(tier):
    small = small_programs()
    k = 8
    out = [Shard(f"programs-upto2-{j}", check_program, cases=(lambda part=small[j::k]: part),
                 nontrivial=program_nontrivial, exhaustive=True) for j in range(k)]
    out += [Shard(f"programs-3to4-{j}", check_program, strategy=programs(3, 4), n=1000,
                  nontrivial=program_nontrivial, thorough_mult=25) for j in range(4)]
    out += [Shard(f"histories-{j}", check_history, strategy=histories(tier), n=600, nontrivial=lambda c: False,
                  thorough_mult=25) for j in range(4)]
    return out
