"""C09 - tee children all see the full source sequence under every interleaving."""
import weakref

from hypothesis import strategies as st

from ..runner import Shard, Violation
from ..driver import Ctx, Scheduler, Lock, Cancel, loop_mode, close_orphans, all_schedules
from .. import env

env.setup()
import asyncstdlib as a  # noqa: E402

PROPERTY = "C09"
LEVEL = "exploration"
RULE = (
    "Hypothesis draws a configuration (2-4 tee children, each run by its own task; a cancellation-safe class "
    "source of 0-4 items (thorough 0-6) that suspends 0-2 times per item and creates its items lazily; a FIFO "
    "lock double (optionally suspending when acquired uncontended and when RELEASED) or none - only 'lock given or source never suspends', as the property states; per child "
    "'close after j items' with j from 0; optionally one task cancelled at its s-th suspension) and a schedule "
    "(list of ints choosing which ready task advances at each step; tasks also suspend between items). "
    "The thorough tier additionally ENUMERATES ALL schedules of the small configurations (<= 3 children x <= 2 "
    "items x <= 1 suspension, with/without lock, with each single early close). Invariants after every scheduler "
    "step and at quiescence: each child got a prefix of the source sequence, the full one if it ran to the end; "
    "items served by the source == furthest position reached by any child (each fetched once); with a lock no "
    "overlapping __anext__ of the source; no deadlock, lock free and balanced at quiescence; weakly referenced "
    "items alive <= (front - slowest live child) + children + 1; the source is closed iff every child is done. "
    "A child that has an item waiting in its buffer (a sibling fetched it) must hand it out without suspending, even "
    "while the sibling holds the lock inside the source. Nested configurations hand child 0, un-advanced, to a second "
    "tee (2-3 children, own lock): the leaves are consumed concurrently. "
    "Non-trivial: real contention (a task waited for the lock or two tasks were inside the source in the same "
    "run) or an early close / cancellation while other children continued."
)
ASSUMPTIONS = [
    "cancellation uses the class-based source: an async generator source dies when a consumer is cancelled inside it (language semantics)",
    "tasks are cooperative coroutines; preemptive threads are out of scope",
]


class Item:
    __slots__ = ("idx", "__weakref__")

    def __init__(self, idx):
        self.idx = idx


class LazySource:
    """cancellation-safe: the position only moves after the last suspension of a pull"""

    def __init__(self, ctx, n, susp):
        self.ctx, self.n, self.susp = ctx, n, susp
        self.idx = 0
        self.refs = []
        self.fetched_by = {}
        self.active = 0
        self.max_active = 0
        self.close_calls = 0
        self.closed = False
        self.exhausted = False

    def __aiter__(self):
        return self

    async def __anext__(self):
        self.active += 1
        self.max_active = max(self.max_active, self.active)
        try:
            for _ in range(self.susp):
                await self.ctx.suspend(("source", self.idx))
            if self.closed or self.idx >= self.n:
                self.exhausted = True
                raise StopAsyncIteration
            item = Item(self.idx)
            self.refs.append(weakref.ref(item))
            self.fetched_by[self.idx] = getattr(self.ctx, "current_task", None)
            self.idx += 1
            return item
        finally:
            self.active -= 1

    async def aclose(self):
        self.close_calls += 1
        self.closed = True

    def alive(self):
        return sum(1 for r in self.refs if r() is not None)


class DualSource(LazySource):
    """also offers the synchronous protocol (like an object that can be read blocking or non-blocking)"""

    def __iter__(self):
        while not self.closed and self.idx < self.n:
            item = Item(self.idx)
            self.refs.append(weakref.ref(item))
            self.idx += 1
            yield item
        self.exhausted = True


#: a class based source without any ``aclose``: nothing to close at the end - everything else as usual (a child that is
#: done stops buffering, whatever its source can or cannot do)
NoCloseSource = type("NoCloseSource", (), {k: v for k, v in LazySource.__dict__.items() if k != "aclose"})


@st.composite
def configs(draw, tier):
    n = draw(st.integers(2, 4))
    lock = draw(st.booleans())
    susp = draw(st.integers(0, 2)) if lock else 0
    length = draw(st.integers(0, 4 if tier == "quick" else 6))
    closes = [draw(st.one_of(st.none(), st.none(), st.integers(0, length + 1))) for _ in range(n)]
    cancel = draw(st.one_of(st.none(), st.tuples(st.integers(0, n - 1), st.integers(1, 8))))
    return {"n": n, "lock": lock, "lock_susp": draw(st.booleans()) if lock else False,
            "lock_release_susp": draw(st.booleans()) if lock else False,
            "lock_falsy": draw(st.booleans()) if lock else False, "susp": susp,
            "length": length, "closes": closes, "cancel": list(cancel) if cancel else None,
            "between": draw(st.booleans()), "close_after_cancel": draw(st.booleans()),
            "dual": draw(st.sampled_from([False, False, True])),
            "late_index": draw(st.sampled_from([False, False, True])),
            "noclose": draw(st.sampled_from([False, False, True])),
            # nested: child 0 is not consumed directly but handed, un-advanced, to a second tee with a lock of its own
            "nested": draw(st.sampled_from([0, 0, 0, 2, 3])) if n <= 3 else 0,
            "choices": draw(st.lists(st.integers(0, 3), max_size=60))}


def run_config(case, choices=None, default="rr"):
    ctx = Ctx("a")
    n = case["n"]
    src = (DualSource if case.get("dual") else NoCloseSource if case.get("noclose") else LazySource)(
        ctx, case["length"], case["susp"])
    lock = Lock(ctx, "lock", suspend_uncontended=case["lock_susp"],
                release_susp=case.get("lock_release_susp", False)) if case["lock"] else None
    if lock is not None and case.get("lock_falsy"):
        lock.falsy = True
    handle = a.tee(src, n, lock=lock) if lock is not None else a.tee(src, n)
    children = list(handle) if not (case.get("late_index") and not case.get("nested")) else [None] * n
    lock2 = None
    if case.get("nested"):
        lock2 = Lock(ctx, "lock2", suspend_uncontended=case["lock_susp"],
                     release_susp=case.get("lock_release_susp", False)) if case["lock"] else None
        inner = a.tee(children[0], case["nested"], lock=lock2) if lock2 is not None else \
            a.tee(children[0], case["nested"])
        children = list(inner) + children[1:]
        n = len(children)
        case = dict(case, closes=(list(case["closes"]) + [None] * n)[:n])
        # the inner tee's source is a generator-based tee child: like every async generator it is finished by a
        # cancellation passing through it (see ASSUMPTIONS), so nested configurations are not cancelled
        case["cancel"] = None
    locks = [x for x in (lock, lock2) if x is not None]
    fetching = [None] * n
    got = [[] for _ in range(n)]
    state = ["running"] * n  # running | finished | closed | cancelled
    problems = []
    contention = [False]

    async def consumer(i):
        # ("late_index": a consumer takes its child out of the tee by index only when it starts - possibly after a
        #  sibling has advanced; a tee's children all exist, and all buffer, from the moment the tee was made)
        child = children[i] if not (case.get("late_index") and not case.get("nested")) else handle[i]
        limit = case["closes"][i]
        inside = False
        try:
            while limit is None or len(got[i]) < limit:
                try:
                    inside = True
                    # an item that a sibling already fetched is in this child's buffer: it is available now
                    fetching[i] = "buffered" if len(got[i]) < src.idx else "source"
                    item = await child.__anext__()
                    fetching[i] = None
                    inside = False
                except StopAsyncIteration:
                    fetching[i] = None
                    state[i] = "finished"
                    return
                got[i].append(item.idx)
                del item
                if case["between"]:
                    await ctx.suspend(("between", i))
            await child.aclose()
            state[i] = "closed"
        except Cancel:
            state[i] = "cancelled"
            # the cancellation went through the child's __anext__, which finishes it; the owner of
            # the cancelled consumer may or may not close the (already finished) child in addition
            if case.get("close_after_cancel") or not inside:
                await child.aclose()
            raise

    def invariant(sched, task):
        if problems:
            return
        if src.max_active > 1:
            contention[0] = True
            if lock is not None:
                problems.append(("source-advanced-by-two-consumers-at-once", f"max_active={src.max_active}"))
                return
        if any(lk.waiters for lk in locks):
            contention[0] = True
        if task is not None and not task.done and task.name.startswith("c") and not case.get("nested"):
            i = int(task.name[1:])
            if fetching[i] == "buffered":
                problems.append(("buffered-item-not-handed-out-at-once",
                                 f"child {i} has {src.idx - len(got[i])} fetched item(s) waiting but its __anext__ "
                                 f"suspended at {getattr(task.pending, 'tag', None)!r}"))
                return
        expected = list(range(case["length"]))
        for i in range(n):
            if got[i] != expected[:len(got[i])]:
                problems.append(("child-items-out-of-order-or-duplicated", f"child {i}: {got[i]}"))
                return
            if state[i] == "finished" and got[i] != expected:
                problems.append(("child-finished-without-all-items", f"child {i}: {got[i]}"))
                return
        front = max(len(g) for g in got)
        if src.idx != front and not any(t.pending is not None and not t.done for t in sched.tasks):
            pass
        live = [len(got[i]) for i in range(n) if state[i] == "running"]
        lead = (src.idx - min(live)) if live else 0
        alive = src.alive()
        if alive > lead + n + 1:
            problems.append(("item-retained-beyond-slowest-live-child",
                             f"alive={alive} lead={lead} got={[len(g) for g in got]} state={state}"))
            return
        if live and not case.get("nested"):
            # exactly WHICH items may still be alive: those some live child has yet to yield (and what a consumer that
            # is being stepped holds this very moment)
            allowed = set(range(min(live), src.idx))
            stale = [k for k, r in enumerate(src.refs) if r() is not None and k not in allowed]
            if stale and not any(t.pending is None and not t.done for t in sched.tasks):
                problems.append(("item-alive-although-every-live-child-has-yielded-it",
                                 f"items {stale} got={[len(g) for g in got]} state={state} fetched_by={src.fetched_by}"))
                return
        all_done = all(s != "running" for s in state)
        if case.get("nested"):
            # only the OUTER children decide when the source is closed
            # (when exactly the first child became done is not observable from outside while an inner child is
            # still on its way out, so for nested tees only the outer siblings are required to be done)
            all_done = all(s != "running" for s in state[case["nested"]:])
        if src.close_calls > 1:
            problems.append(("source-closed-twice", f"{src.close_calls}"))
        elif src.close_calls and not all_done:
            problems.append(("source-closed-while-children-live", f"state={state}"))

    cancel = {}
    cancel_obj = None
    if case["cancel"]:
        cancel_obj = Cancel("cancel")
        cancel = {f"c{case['cancel'][0]}": (case["cancel"][1], cancel_obj)}
    sched = Scheduler(ctx, [(f"c{i}", consumer(i)) for i in range(n)],
                      case["choices"] if choices is None else choices,
                      cancel=cancel, on_step=invariant, max_steps=5000, default=default)
    with loop_mode(ctx, "hooks"):
        sched.run()
        try:
            if sched.verdict is not None:
                return sched, [(f"{sched.verdict}", f"trace={sched.trace[-12:]}")], contention[0]
            if problems:
                return sched, problems, contention[0]
            expected = list(range(case["length"]))
            for i, t in enumerate(sched.tasks):
                kind, value = t.outcome
                if kind == "raise" and not (value is cancel_obj and state[i] == "cancelled"):
                    return sched, [("consumer-raised", f"child {i}: {value!r}")], contention[0]
            front = max(len(g) for g in got)
            # a consumer cancelled at the lock's release suspension has fetched an item it never receives;
            # if no other child is left to take it from its buffer the item is legitimately undelivered
            slack = 1 if (case["cancel"] and case.get("lock_release_susp") and
                          any(s == "cancelled" for s in state)) else 0
            if not (front <= src.idx <= front + slack):
                return sched, [("source-item-fetched-but-never-delivered-or-fetched-twice",
                                f"served={src.idx} furthest child={front} got={got}")], contention[0]
            for lk in locks:
                if lk.locked or lk.waiters or lk.acquired != lk.released or lk.errors:
                    return sched, [("lock-not-free-at-quiescence",
                                    f"locked={lk.locked} acquired={lk.acquired} released={lk.released}")], contention[0]
            if not (src.closed or src.exhausted) and not case.get("noclose"):  # (nothing to close there)
                return sched, [("source-not-closed-after-last-child", f"state={state}")], contention[0]
            if src.alive() > n + 1:
                return sched, [("items-alive-after-all-children-done", f"alive={src.alive()}")], contention[0]
        finally:
            close_orphans(ctx)
    return sched, [], contention[0]


def check(case):
    sched, problems, contended = run_config(case)
    if problems:
        kind, detail = problems[0]
        raise Violation(f"C09/{kind}", f"{detail} config={ {k: v for k, v in case.items() if k != 'choices'} }")
    early = any(c is not None and c <= case["length"] for c in case["closes"]) or case["cancel"]
    labels = {}
    if contended:
        labels["contention"] = 1
    if early:
        labels["early-close-or-cancel"] = 1
    if case["lock"]:
        labels["with-lock"] = 1
    return {"evaluations": 1, "nontrivial": ["x"] if (contended or early) and case["length"] >= 1 else [],
            "labels": labels}


# ---- exhaustive schedules over small configurations ----------------------------


def small_configs():
    out = []
    for n in (2, 3):
        for length in (0, 1, 2):
            for lock in (False, True):
                for susp in ((0, 1) if lock else (0,)):
                    for between in (False, True):
                        closes_options = [[None] * n]
                        for i in range(n):
                            for j in range(0, length + 1):
                                c = [None] * n
                                c[i] = j
                                closes_options.append(c)
                        for closes in closes_options:
                            if n == 3 and (between and susp):
                                continue  # too many interleavings: covered by sampling
                            if lock and n == 2 and not between:
                                out.append({"n": n, "lock": lock, "lock_susp": False, "lock_release_susp": True,
                                            "susp": susp, "length": length, "closes": closes, "cancel": None,
                                            "between": between, "choices": []})
                            out.append({"n": n, "lock": lock, "lock_susp": False, "susp": susp,
                                        "length": length, "closes": closes, "cancel": None,
                                        "between": between, "choices": []})
    return out


def check_exhaustive(case):
    first = []

    def run_with(prefix):
        sched, problems, _ = run_config(case, choices=prefix, default="first")
        if problems and not first:
            first.append((problems[0], list(prefix)))
        return sched

    count, complete = all_schedules(run_with, limit=30000)
    if first:
        (kind, detail), prefix = first[0]
        raise Violation(f"C09/{kind}", f"{detail} schedule={prefix}", case=dict(case, choices=prefix))
    return {"evaluations": count, "nontrivial": [f"schedules={count}"] if count > 1 else [],
            "labels": {"exhaustive-configs": 1, "exhaustive-complete": int(complete),
                       "exhaustive-schedules": count}}


@st.composite
def shared_lock_configs(draw):
    n = draw(st.integers(1, 3))
    length = draw(st.integers(1, 6))
    return {"n": n, "length": length, "susp": draw(st.integers(1, 2)),
            # children other than the last one stop early (closed after j items), so the tee is down to ONE live child
            "closes": [draw(st.integers(0, 2)) for _ in range(n - 1)] + [None],
            "readers": draw(st.integers(1, 2)), "reads": draw(st.integers(1, 4)),
            "lock_susp": draw(st.booleans()), "choices": draw(st.lists(st.integers(0, 4), max_size=80))}


def check_shared_lock(case):
    """the lock given to a tee is not private to that tee: other readers of the same source (a second tee, a task that
    takes the lock itself) rely on it as well - also when the tee is down to a single child.  With every party
    holding the lock while it advances the source, the source is never advanced by two of them at once, and every
    item goes to exactly one place."""
    ctx = Ctx("a")
    src = LazySource(ctx, case["length"], case["susp"])
    lock = Lock(ctx, "lock", suspend_uncontended=case["lock_susp"])
    children = list(a.tee(src, case["n"], lock=lock))
    taken = []

    async def consumer(i):
        child, limit = children[i], case["closes"][i]
        k = 0
        while limit is None or k < limit:
            try:
                item = await child.__anext__()
            except StopAsyncIteration:
                return
            if i == case["n"] - 1:
                taken.append(item.idx)
            del item
            k += 1
        await child.aclose()

    async def reader(r):
        for _ in range(case["reads"]):
            async with lock:
                try:
                    item = await src.__anext__()
                except StopAsyncIteration:
                    return
                taken.append(item.idx)
                del item

    problems = []

    def invariant(sched, task):
        if src.max_active > 1 and not problems:
            problems.append(("source-advanced-by-two-lock-holders-at-once", f"max_active={src.max_active}"))

    tasks = [(f"c{i}", consumer(i)) for i in range(case["n"])] + [(f"r{r}", reader(r)) for r in range(case["readers"])]
    sched = Scheduler(ctx, tasks, case["choices"], on_step=invariant, max_steps=5000, default="rr")
    with loop_mode(ctx, "hooks"):
        sched.run()
        close_orphans(ctx)
    if sched.verdict is not None:
        raise Violation(f"C09/shared-lock/{sched.verdict}", f"trace={sched.trace[-10:]}")
    if problems:
        raise Violation(f"C09/{problems[0][0]}", f"{problems[0][1]} config={ {k: v for k, v in case.items() if k != 'choices'} }")
    if len(taken) != len(set(taken)):
        raise Violation("C09/shared-lock/item-delivered-twice", f"{sorted(taken)}")
    return {"evaluations": 1, "nontrivial": ["x"] if len(taken) >= 2 else [], "labels": {}}


def shards(tier):
    out = [Shard(f"schedules-{i}", check, strategy=configs(tier), n=1500, nontrivial=lambda c: False,
                 thorough_mult=12) for i in range(8)]
    out.append(Shard("shared-lock", check_shared_lock, strategy=shared_lock_configs(), n=800, nontrivial=lambda c: False,
                     thorough_mult=12))
    if tier == "thorough":
        cfgs = small_configs()
        k = 16
        for j in range(k):
            part = cfgs[j::k]
            out.append(Shard(f"exhaustive-{j}", check_exhaustive, cases=(lambda part=part: part),
                             nontrivial=lambda c: False, exhaustive=True))
    else:
        # a slice of the exhaustive space also runs in the quick tier (2 children)
        cfgs = [c for c in small_configs() if c["n"] == 2]
        for j in range(8):
            part = cfgs[j::8]
            out.append(Shard(f"exhaustive-2children-{j}", check_exhaustive, cases=(lambda part=part: part),
                             nontrivial=lambda c: False, exhaustive=True))
    return out
