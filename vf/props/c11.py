"""C11 - lru_cache stays correct under overlapping calls and cancellation."""
import itertools
from collections import OrderedDict

from hypothesis import strategies as st

from ..runner import Shard, Violation
from ..driver import Ctx, Scheduler, Cancel, run, all_schedules
from .c10 import Model
from .. import env

env.setup()
import asyncstdlib as a  # noqa: E402

PROPERTY = "C11"
LEVEL = "exploration"
RULE = (
    "Hypothesis draws a configuration (2-4 tasks, each a list of 1-3 steps from {call key k, cache_clear, "
    "cache_discard k} over 1-3 keys; the wrapped coroutine function suspends 1-2 times and returns a fresh "
    "object per invocation; maxsize in {None, 1, 2}; optionally one invocation fails; optionally one task is "
    "cancelled at its s-th suspension) and a schedule (list of ints: which ready task advances). The thorough "
    "tier additionally ENUMERATES ALL schedules for 2 tasks x 2 calls over 1-2 keys for every maxsize. "
    "Invariants: after EVERY scheduler step currsize <= maxsize; every value a task receives was returned by an "
    "invocation for an equal key; at quiescence hits+misses == calls started since the last cache_clear and "
    "misses == invocations started since then; finally a generated sequential probe history must be "
    "explainable by the sequential LRU model (C10) started from SOME ordered subset, of size currsize, of the "
    "keys with a successfully completed invocation - so a failed or cancelled call can have stored nothing, and "
    "contents are never over-specified. Non-trivial: two invocations overlapped in time, or a "
    "cancellation / clear / discard happened while a call was in flight."
)
ASSUMPTIONS = [
    "cooperative tasks; the wrapped function tolerates overlapping calls (as the documentation requires)",
    "the probe history is sequential, its oracle is the C10 model",
]


class Val:
    __slots__ = ("key", "n")

    def __init__(self, key, n):
        self.key, self.n = key, n


# key index -> call pattern; "kwlook": a keyword call and a positional call whose argument looks like its keyword item
PATTERN_SETS = {
    "plain": [((0,), {}), ((1,), {}), ((2,), {})],
    "kwlook": [((), {"a": 1}), ((("a", 1),), {}), (("a", 1), {})],
}


def _pattern(case, key):
    return PATTERN_SETS[case.get("patterns", "plain")][key]


@st.composite
def configs(draw, tier):
    nkeys = draw(st.integers(1, 3))
    step = st.one_of(st.tuples(st.just("call"), st.integers(0, nkeys - 1)),
                     st.tuples(st.just("call"), st.integers(0, nkeys - 1)),
                     st.tuples(st.just("call"), st.integers(0, nkeys - 1)),
                     st.tuples(st.just("clear"), st.just(0)),
                     st.tuples(st.just("discard"), st.integers(0, nkeys - 1)),
                     # a call object that is created but never started (a task cancelled before its first step)
                     st.tuples(st.just("abandon"), st.integers(0, nkeys - 1)))
    ntasks = draw(st.integers(2, 4))
    tasks = [[list(s) for s in draw(st.lists(step, min_size=1, max_size=3))] for _ in range(ntasks)]
    cancel = draw(st.one_of(st.none(), st.tuples(st.integers(0, ntasks - 1), st.integers(1, 4))))
    return {"tasks": tasks, "maxsize": draw(st.sampled_from([None, 1, 2])), "susp": draw(st.integers(1, 2)),
            "fail": draw(st.one_of(st.none(), st.integers(1, 5))), "cancel": list(cancel) if cancel else None,
            "probe": draw(st.lists(st.integers(0, nkeys - 1), max_size=6)),
            "patterns": draw(st.sampled_from(["plain", "plain", "kwlook"])),
            "eager_fail": draw(st.sampled_from([False, False, True])),
            "choices": draw(st.lists(st.integers(0, 3), max_size=40))}


def run_config(case, choices=None, default="rr"):
    ctx = Ctx("a")
    maxsize = case["maxsize"]
    invocations = []      # [key, epoch, state] state: running | returned | failed | cancelled
    produced = {}
    epoch = [0]
    calls = []            # (key, epoch at start)
    problems = []
    flags = {"overlap": False, "disturbed": False}
    in_flight = [0]

    by_pattern = {(args, tuple(kw.items())): k
                  for k, (args, kw) in enumerate(PATTERN_SETS[case.get("patterns", "plain")])}

    async def fn(*args, **kwargs):
        key = by_pattern[(args, tuple(kwargs.items()))]
        rec = [key, epoch[0], "running"]
        invocations.append(rec)
        n = len(invocations)
        in_flight[0] += 1
        if in_flight[0] > 1:
            flags["overlap"] = True
        try:
            for _ in range(case["susp"]):
                await ctx.suspend(("fn", key))
            if case["fail"] == n:
                rec[2] = "failed"
                raise ValueError("planned failure")
            value = Val(key, n)
            produced[id(value)] = value
            rec[2] = "returned"
            return value
        except BaseException:  # noqa: B902
            if rec[2] == "running":
                rec[2] = "cancelled"
            raise
        finally:
            in_flight[0] -= 1

    def fn_front(*args, **kwargs):
        # "any other callable that returns an awaitable": a plain def; the planned failure happens when it is CALLED
        if case["fail"] == len(invocations) + 1:
            invocations.append([by_pattern[(args, tuple(kwargs.items()))], epoch[0], "failed"])
            raise ValueError("planned failure at call time")
        return fn(*args, **kwargs)

    cached = a.lru_cache(maxsize=maxsize)(fn_front if case.get("eager_fail") else fn)

    async def task(i):
        for name, key in case["tasks"][i]:
            if name == "call":
                calls.append((key, epoch[0]))
                try:
                    args, kwargs = _pattern(case, key)
                    value = await cached(*args, **kwargs)
                except ValueError:
                    continue
                if id(value) not in produced or value.key != key:
                    problems.append(("value-not-produced-for-this-key", f"task {i} key {key}: {value!r}"))
            elif name == "abandon":
                args, kwargs = _pattern(case, key)
                never_started = cached(*args, **kwargs)
                if hasattr(never_started, "close"):
                    never_started.close()
                del never_started
            elif name == "clear":
                if in_flight[0]:
                    flags["disturbed"] = True
                cached.cache_clear()
                epoch[0] += 1
            else:
                if in_flight[0]:
                    flags["disturbed"] = True
                args, kwargs = _pattern(case, key)
                cached.cache_discard(*args, **kwargs)

    def invariant(sched, t):
        info = cached.cache_info()
        if maxsize is not None and info.currsize > maxsize:
            problems.append(("currsize-exceeds-maxsize", f"{tuple(info)} after step of {t.name}"))
        if t.cancelled and in_flight[0] >= 0:
            flags["disturbed"] = True

    cancel = {}
    cancel_obj = None
    if case["cancel"]:
        cancel_obj = Cancel("cancel")
        cancel = {f"t{case['cancel'][0]}": (case["cancel"][1], cancel_obj)}
    sched = Scheduler(ctx, [(f"t{i}", task(i)) for i in range(len(case["tasks"]))],
                      case["choices"] if choices is None else choices, cancel=cancel, on_step=invariant,
                      max_steps=3000, default=default)
    sched.run()
    if sched.verdict:
        return sched, [(sched.verdict, f"trace={sched.trace[-10:]}")], flags
    if problems:
        return sched, problems, flags
    for t in sched.tasks:
        kind, value = t.outcome
        if kind == "raise" and value is not cancel_obj:
            return sched, [("task-raised", repr(value))], flags
    info = cached.cache_info()
    started_calls = sum(1 for _, e in calls if e == epoch[0])
    started_invocations = sum(1 for rec in invocations if rec[1] == epoch[0])
    detail = f"info={tuple(info)} calls={calls} invocations={invocations} epoch={epoch[0]}"
    if info.hits + info.misses != started_calls:
        return sched, [("hits-plus-misses-differs-from-calls", detail)], flags
    if info.misses != started_invocations:
        return sched, [("misses-differ-from-invocations", detail)], flags
    if maxsize is not None and info.currsize > maxsize:
        return sched, [("currsize-exceeds-maxsize", detail)], flags
    # existential LRU oracle on a sequential probe history
    completed = sorted({rec[0] for rec in invocations if rec[2] == "returned"})
    if info.currsize > len(completed):
        return sched, [("entry-without-completed-invocation", detail)], flags
    observed = []
    for key in case["probe"]:
        before = len(invocations)
        pargs, pkwargs = _pattern(case, key)
        out = run(ctx, cached(*pargs, **pkwargs))
        if out[0] != "return" and not (out[0] == "raise" and isinstance(out[1], ValueError)):
            return sched, [("cache-unusable-after-quiescence", repr(out))], flags
        hit = len(invocations) == before
        if hit and (out[0] != "return" or out[1].key != key or invocations[out[1].n - 1][2] != "returned"):
            return sched, [("hit-served-a-value-of-a-failed-or-foreign-call", detail)], flags
        failed = out[0] == "raise"
        observed.append((key, hit, failed))
    final = tuple(cached.cache_info())
    explained = False
    for subset in itertools.permutations(completed, info.currsize):
        model = Model(maxsize, False)
        model.hits, model.misses = info.hits, info.misses
        model.cache = OrderedDict((k, "v") for k in subset)
        ok = True
        for key, hit, failed in observed:
            mkey, mhit = model.lookup((key,), {})
            if mhit != hit:
                ok = False
                break
            if not mhit and not failed:
                model.store(mkey, "v")
        if ok and model.info() == final:
            explained = True
            break
    if not explained:
        return sched, [("cache-contents-not-explainable-by-completed-calls",
                        f"{detail} probes={observed} final={final} completed={completed}")], flags
    return sched, [], flags


def check(case):
    sched, problems, flags = run_config(case)
    if problems:
        kind, detail = problems[0]
        raise Violation(f"C11/{kind}", f"{detail} config={ {k: v for k, v in case.items() if k != 'choices'} }")
    nt = flags["overlap"] or flags["disturbed"]
    return {"evaluations": 1, "nontrivial": ["x"] if nt else [],
            "labels": {k: 1 for k, v in flags.items() if v}}


def small_configs():
    out = []
    for maxsize in (None, 1, 2):
        for k1, k2, k3, k4 in itertools.product((0, 1), repeat=4):
            for susp in (1, 2):
                for extra in (None, "clear", "discard"):
                    t0 = [["call", k1], ["call", k2]]
                    t1 = [["call", k3], ["call", k4]]
                    if extra == "clear":
                        t1.insert(1, ["clear", 0])
                    elif extra == "discard":
                        t1.insert(1, ["discard", k1])
                    if susp == 2 and extra is not None:
                        continue
                    out.append({"tasks": [t0, t1], "maxsize": maxsize, "susp": susp, "fail": None,
                                "cancel": None, "probe": [0, 1, 0], "choices": []})
    return out


def check_exhaustive(case):
    first = []

    def run_with(prefix):
        sched, problems, _ = run_config(case, choices=prefix, default="first")
        if problems and not first:
            first.append((problems[0], list(prefix)))
        return sched

    count, complete = all_schedules(run_with, limit=20000)
    if first:
        (kind, detail), prefix = first[0]
        raise Violation(f"C11/{kind}", f"{detail} schedule={prefix}", case=dict(case, choices=prefix))
    return {"evaluations": count, "nontrivial": [f"schedules={count}"] if count > 1 else [],
            "labels": {"exhaustive-configs": 1, "exhaustive-complete": int(complete), "exhaustive-schedules": count}}


def shards(tier):
    out = [Shard(f"schedules-{i}", check, strategy=configs(tier), n=1200, nontrivial=lambda c: False,
                 thorough_mult=15) for i in range(8)]
    cfgs = small_configs()
    if tier == "quick":
        cfgs = [c for c in cfgs if c["susp"] == 1 and len(c["tasks"][1]) == 2]
    k = 8
    out += [Shard(f"exhaustive-2x2-{j}", check_exhaustive, cases=(lambda part=cfgs[j::k]: part),
                  nontrivial=lambda c: False, exhaustive=True) for j in range(k)]
    return out
