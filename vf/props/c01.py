"""C01 - iterator tools produce exactly what their stdlib namesakes produce."""
from hypothesis import strategies as st

from ..runner import Shard, Violation
from ..tools import ITER_TOOLS, TOOLS
from ..gen import base_case, features
from ..core import expect_return, run_async, run_sync, consumer_view, first_diff, generators_closed_by_tool

PROPERTY = "C01"
LEVEL = "exploration"
RULE = (
    "Hypothesis draws, per iterator tool, 0-4 sources (given as async generator, list, one-shot iterator, __getitem__ "
    "sequence, re-iterable sync / async iterable, or a class-based async iterator behind a delegating proxy; after "
    "the end an iterator may be polled 1-3 more times and must stay exhausted; iter(callable, sentinel) also with a "
    "NaN sentinel returned by the callable; callables may return a class; "
    "tee children may also be closed/dropped early in a generated order) of 0-8 items (Items with keys 0..3 so that "
    "equal-yet-distinguishable items are frequent; other value profiles where the tool allows), "
    "all valid parameters and table-driven callables; the asynchronous tool and the synchronous "
    "stdlib function (and, in the pipelines-* shards, compositions T3(T2(T1(source))) of 2-3 tools against the "
    "same stdlib composition) are run on separately materialised copies and the consumer-visible event "
    "sequences (item identity signature / stop / exception type) are compared. "
    "Non-trivial: some source has >= 2 items AND (a key tie among distinguishable items OR unequal "
    "source lengths OR a non-default parameter/callable). Distinct = hash of the canonical JSON case."
)
ASSUMPTIONS = [
    "CPython 3.12 itertools/heapq/builtins are the reference; batched(strict=True) uses the documented 3.13 rule",
    "no NaN / non-reflexive equality / partial orders among the ITEMS (a NaN sentinel for iter() is generated); merge inputs are constructed pre-sorted",
    "accumulate(initial=None) is not generated (None means 'absent' for itertools only)",
    "exceptions are compared by type; documented deviations (accumulate empty, tee handle) are in the reference",
]


def classify_diff(x, y):
    if x is None or y is None:
        return "length-differs"
    if x[0] == "yield" and y[0] == "yield":
        return "wrong-item"
    if x[0] == "raise" and y[0] == "raise":
        return "wrong-exception"
    return "ends-differently"


def check(case):
    tool = case["tool"]
    bs = run_sync(case)
    ba, outcome = run_async(case)
    expect_return(outcome, f"C01/{tool}")
    av, sv = consumer_view(ba.ctx.log), consumer_view(bs.ctx.log)
    d = first_diff(av, sv)
    if d is not None:
        i, x, y = d
        raise Violation(f"C01/{tool}/{classify_diff(x, y)}",
                        f"event {i}: async={x} stdlib={y}")
    closers = [e for e in ba.ctx.log if e[0] == "close-raise"]
    if closers:
        raise Violation(f"C01/{tool}/close-raises", repr(closers[0]))
    shut = generators_closed_by_tool(ba)
    if shut:
        raise Violation(f"C01/{tool}/closed-the-callers-generator", f"{shut}: the stdlib counterpart only advances it")


def nontrivial(case):
    f = features(case)
    return f["max_len"] >= 2 and (f["tie"] or f["unequal"] or f["nondefault"])


def classify(case):
    f = features(case)
    out = []
    if f["tie"]:
        out.append("tie")
    if f["unequal"]:
        out.append("unequal-lengths")
    if f["empty_input"]:
        out.append("has-empty-source")
    if f["nondefault"]:
        out.append("non-default-parameter")
    return out


@st.composite
def cases(draw, name, tier):
    case = draw(base_case(name, max_len=8 if tier == "quick" else 12, max_src=4 if tier == "quick" else 5,
                          aliasing=name in ("zip", "zip_longest", "map", "chain", "compress")))
    # "the same data" may be given as list, one-shot iterator or async generator
    if name == "iter_sentinel":
        case["srcs"][0]["fl"] = draw(st.sampled_from(["def", "def", "async", "partial", "obj", "iterobj", "aiterobj"]))
    if name != "iter_sentinel":
        for s in case["srcs"]:
            s["fl"] = draw(st.sampled_from(["agen", "agen", "list", "iter", "seq", "reiter", "areiter", "aproxy", "sgen",
                                             "tuple", "range", "iter_noasync", "iter_hint0", "iter_awaitable", "aclass_awaitable"]))
            s["falsy"] = draw(st.integers(0, 4)) == 0  # (class-based flavours only: the object is falsy)
            # (class-based flavours only) value equality, or __eq__ without __hash__ as for a plain dataclass
            s["eqsrc"] = draw(st.sampled_from([False, False, False, False, True, "unhashable"]))
        if TOOLS[name].outer:
            # ... and so may the iterable OF iterables be (an inbox object whose len() is its current backlog)
            case["params"]["outer"]["fl"] = draw(st.sampled_from(["agen", "agen", "aclass", "list", "iter", "seq", "reiter",
                                                                   "areiter", "aproxy", "sgen"]))
            case["params"]["outer"]["falsy"] = draw(st.integers(0, 2)) == 0
        for s in case["srcs"]:
            if s.get("alias") is not None and case["srcs"][s["alias"]]["fl"] == "list":
                case["srcs"][s["alias"]]["fl"] = "iter"  # aliasing is about one-shot iterators
    if case["plan"] and draw(st.integers(0, 2)) == 0:
        # ask again after the end: an exhausted iterator stays exhausted (and yields nothing new)
        outs = max(case["params"].get("n", 1), 1) if name == "tee" else 1
        case["plan"] = case["plan"] + [["repoll", draw(st.integers(0, outs - 1))] for _ in range(draw(st.integers(1, 3)))]
    if case["plan"] and draw(st.integers(0, 3)) == 0:
        # the consumer uses several loops over one iterator (header first, then the rest): aiter() changes nothing
        outs = max(case["params"].get("n", 1), 1) if name == "tee" else 1
        for _ in range(draw(st.integers(1, 2))):
            case["plan"].insert(draw(st.integers(0, len(case["plan"]))), ["reiter", draw(st.integers(0, outs - 1))])
    case["keep"] = True  # signatures of everything yielded are taken again at the very end
    lists = [i for i, s in enumerate(case["srcs"]) if s["fl"] == "list" and s.get("alias") is None]
    if lists and case["plan"] and draw(st.integers(0, 3)) == 0:
        # the caller mutates a list it handed over while the tool is being consumed: a tool must neither
        # alias the caller's list as its own storage nor snapshot it early
        for k in range(draw(st.integers(1, 2))):
            i = draw(st.sampled_from(lists))
            case["srcs"][i]["mutable"] = True
            how = draw(st.sampled_from(["append", "append", "pop", "clear", "insert0"]))
            case["plan"].insert(draw(st.integers(0, len(case["plan"]))), ["mutate", i, how, 900 + k])
        if not TOOLS[name].infinite:
            case["plan"] = case["plan"] + [0, 0]  # an append may have made the input longer
    if name == "tee" and case["params"].get("n", 0) >= 2 and lists and case["srcs"][0]["fl"] == "list" \
            and draw(st.integers(0, 2)) == 0:
        # deliberately: one child runs to the end, THEN the caller's list grows, then a sibling reads - the children
        # share one pass over the list, so the sibling sees what the first child saw
        total = len(case["srcs"][0]["items"])
        case["srcs"][0]["mutable"] = True
        case["plan"] = [0] * (total + 1) + [["mutate", 0, "append", 990]] + [1] * (total + 2) + [0]
    if TOOLS[name].outer and case["params"]["outer"].get("fl") == "list" and case["plan"] and draw(st.integers(0, 1)) == 0:
        # ... or the list OF iterables it handed to chain.from_iterable (a work queue that is still being filled)
        case["params"]["outer"]["mutable"] = True
        for k in range(draw(st.integers(1, 2))):
            how = draw(st.sampled_from(["append", "append", "pop", "clear"]))
            case["plan"].insert(draw(st.integers(0, len(case["plan"]))), ["mutate", "outer", how, 950 + k])
        case["plan"] = case["plan"] + [0, 0]
    if name == "tee" and case["params"]["n"] >= 2 and case["plan"]:
        # a child may also be closed / dropped early: its siblings must be unaffected
        k = case["params"]["n"]
        closes = draw(st.lists(st.tuples(st.integers(0, len(case["plan"])), st.integers(0, k - 1)), max_size=2))
        for pos, child in sorted(closes, reverse=True):
            case["plan"].insert(pos, ["close", child])
    return case


@st.composite
def big_number_cases(draw):
    """parameters and lengths beyond 256 (small-int cache) and beyond any plausible internal threshold"""
    name = draw(st.sampled_from(["islice", "islice", "batched", "enumerate", "tee", "zip", "chain", "cycle"]))
    n_items = draw(st.sampled_from([258, 300, 520]))
    items = [["I", i % 4, i] for i in range(n_items)]
    src = {"items": items, "fl": draw(st.sampled_from(["agen", "list", "iter"])), "susp": 0, "csusp": False,
           "fault": None}
    case = {"tool": name, "profile": "item", "srcs": [src], "fns": {}, "params": {}, "close": True, "keep": False}
    big = draw(st.sampled_from([256, 257, 258, 260, 299]))
    if name == "islice":
        case["params"]["args"] = draw(st.sampled_from([[big, None], [big, big + 3], [big, None, 7], [None, big],
                                                       [1, big, 129], [big - 1, big + 1, 1]]))
    elif name == "batched":
        case["params"].update(n=big, strict=draw(st.booleans()))
    elif name == "enumerate":
        case["params"]["start"] = draw(st.sampled_from([256, 257, 2 ** 31, 2 ** 70, -(2 ** 70)]))
    elif name == "tee":
        case["params"]["n"] = 2
    elif name == "zip":
        case["params"]["strict"] = draw(st.booleans())
        case["srcs"].append(dict(src, items=[["I", i % 3, 1000 + i] for i in range(n_items - draw(st.integers(0, 1)))]))
    elif name == "chain":
        case["srcs"].append(dict(src, items=[["I", 1, 2000 + i] for i in range(3)]))
    steps = n_items + 5 if name != "cycle" else 2 * n_items + 3
    case["plan"] = [0] * steps if name != "tee" else [0] * (n_items // 2) + [1] * (n_items + 2) + [0] * (n_items)
    return case


def check_pipeline(case):
    from ..pipelines import run_both

    outcome, events_s, src, ctx_a, ctx_s, released, close_errors = run_both(case)
    events_a = expect_return(outcome, "C01/pipeline")
    d = first_diff(events_a, events_s)
    if d is not None:
        i, x, y = d
        raise Violation(f"C01/pipeline/{classify_diff(x, y)}",
                        f"stages={case['stages']} event {i}: async={x} stdlib={y}")
    if close_errors:
        raise Violation("C01/pipeline/close-raises", f"stages={case['stages']} {close_errors[0]}")


def check_native(case):
    from ..native import run_native

    got, want = run_native(case)
    if got != want:
        raise Violation(f"C01/{case['tool'].split('-')[0]}/native-source-differs",
                        f"{case['tool']} over {case['kinds']} data={case['data']} p={case['p']}: async={got} stdlib={want}")
    return None


def check_interleaved(case):
    from ..native import run_interleaved

    for which, (got, want) in zip("ab", run_interleaved(case)):
        sub = case[which]
        if got != want and want[2] != "crashed":
            raise Violation(f"C01/{sub['tool'].split('-')[0]}/instance-influenced-by-another-instance",
                            f"{sub['tool']} over {sub['kinds']} data={sub['data']} p={sub['p']} alongside "
                            f"{case['b' if which == 'a' else 'a']['tool']}: async={got} stdlib={want}")
    return None


def shards(tier):
    n = 2000
    from ..pipelines import pipelines

    # "large" shards: more sources / longer inputs than Hypothesis' size distribution reaches by itself
    large = [Shard(f"large-{name}", check, fuzz=0, strategy=base_case(name, max_len=7, max_src=8, min_src=5, min_len=1),
                   n=500, nontrivial=nontrivial, classify=classify, thorough_mult=15)
             for name in ("merge", "zip", "zip_longest", "chain")]
    large += [Shard(f"large-{name}", check, fuzz=0, strategy=base_case(name, max_len=30, min_len=12),
                    n=300, nontrivial=nontrivial, classify=classify, thorough_mult=15)
              for name in ("islice", "batched", "tee", "cycle", "pairwise", "accumulate", "takewhile", "dropwhile")]
    large += [Shard(f"big-numbers-{i}", check, strategy=big_number_cases(), n=25, nontrivial=lambda c: True,
                    thorough_mult=8) for i in range(4)]
    extra = large + [Shard(f"pipelines-{i}", check_pipeline, strategy=pipelines(3 if tier == "quick" else 4), n=1500,
                   nontrivial=lambda c: len(c["items"]) >= 2, thorough_mult=15) for i in range(4)]
    from ..native import native_cases, TOOLS_N, AGGREGATIONS

    iter_tools = [t for t in TOOLS_N if t not in AGGREGATIONS]
    extra += [Shard(f"native-sources-{i}", check_native, strategy=native_cases(iter_tools), n=1500,
                    nontrivial=lambda c: sum(len(d) for d in c["data"]) >= 2, thorough_mult=15) for i in range(2)]
    from ..native import interleaved_cases

    extra += [Shard(f"interleaved-instances-{i}", check_interleaved, strategy=interleaved_cases(iter_tools), n=1000,
                    nontrivial=lambda c: c["a"]["tool"].split("-")[0] == c["b"]["tool"].split("-")[0], thorough_mult=15)
              for i in range(2)]
    return extra + [
        Shard(name, check, strategy=cases(name, tier),
              n=n, nontrivial=nontrivial, classify=classify, thorough_mult=15)
        for name in ITER_TOOLS
    ]
