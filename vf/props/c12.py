"""C12 - cached_property computes once, serves one value to all, recomputes after del."""
import itertools

import functools

from hypothesis import strategies as st

from ..runner import Shard, Violation
from ..core import expect_return
from ..driver import Ctx, Scheduler, Cancel, run, lock_type, all_schedules
from ..values import AwaitableItem, AwaitedDataError
from .. import env

env.setup()
import asyncstdlib as a  # noqa: E402

PROPERTY = "C12"
LEVEL = "exploration"
RULE = (
    "Sequential histories (two instances, with and without a lock type): up to 40 operations from {await the "
    "attribute, take the placeholder and await it later, del, make the next getter run fail}; model = per "
    "instance absent | value: the getter must run iff the model says absent, awaits return the identical cached "
    "object until del, failures cache nothing, del of nothing raises AttributeError. Concurrent schedules: 2-4 "
    "awaiting tasks (1-2 awaits each), getter suspending 1-2 times and returning a fresh object, lock type "
    "given or not, optionally a deleting task, optionally a failing getter run, optionally one task cancelled at "
    "its s-th suspension; the schedule is a list of ints (thorough: ALL schedules for 2-3 tasks x 1 suspension). "
    "Oracle: every awaiter gets an object some getter run returned; with a lock and no deletion exactly one run "
    "returns and all awaiters share it, getter runs never overlap, started runs <= 1 + failed + cancelled runs; "
    "with deletion runs <= 1 + deletions + failed + cancelled; no deadlock, every lock double free and balanced "
    "at quiescence (also after the lock holder was cancelled); afterwards a sequential await is served without "
    "a new run and returns the same object twice. Non-trivial: sequential - a del or a failure followed by an "
    "await; concurrent - >= 2 awaiters inside the placeholder at once, or the task running the getter cancelled."
)
ASSUMPTIONS = [
    "with a deleting task only recomputation is promised, so 'exactly once' is asserted for deletion-free runs only",
    "without a lock the documented behaviour (getter may run several times, last one wins) is accepted",
]


GETTER_ERRORS = {"ValueError": ValueError, "KeyError": KeyError, "AttributeError": AttributeError,
                 "TypeError": TypeError, "RuntimeError": RuntimeError, "LookupError": LookupError}
FAILURES = tuple(GETTER_ERRORS.values())

# ---- sequential ------------------------------------------------------------------


@st.composite
def seq_histories(draw, tier):
    op = st.one_of(
        st.tuples(st.just("await"), st.integers(0, 1)),
        st.tuples(st.just("await"), st.integers(0, 1)),
        st.tuples(st.just("take"), st.integers(0, 1)),
        st.tuples(st.just("await-taken"), st.integers(0, 5)),
        st.tuples(st.just("del"), st.integers(0, 1)),
        st.tuples(st.just("fail-next"), st.integers(0, 1)),
        st.tuples(st.just("await-temp"), st.integers(0, 1)),
        # the instance gets a NEW attribute dict with the same content (the "reset / copy my state" idiom): the
        # attributes - cached values and placeholders included - are what they were
        st.tuples(st.just("rebind-dict"), st.integers(0, 1)),
        st.tuples(st.just("hash-attr"), st.integers(0, 1)),
    )
    return {"ops": [list(o) for o in draw(st.lists(op, min_size=draw(st.sampled_from([0, 5])),
                                                   max_size=40 if tier == "quick" else 60))],
            "lock": draw(st.booleans()), "susp": draw(st.integers(0, 1)),
            "exc": draw(st.sampled_from(sorted(GETTER_ERRORS))), "aw_value": draw(st.sampled_from([False, False, True])),
            # "small": the getter returns plain numbers that are EQUAL to True / False / each other (1, 1.0, 0, -0.0):
            # awaiters must get the very object the getter returned
            "small_value": draw(st.sampled_from([False, False, True, "nocompare", "none"])),
            "falsy_instance": draw(st.sampled_from([False, False, True])),
            # how the getter is given: a function, a partial of one, a bound method of a helper object
            "getter_form": draw(st.sampled_from(["function", "function", "partial", "bound"])),
            "subclass": draw(st.booleans()), "frozen": draw(st.sampled_from([False, False, True]))}


_NOTHING = type("Nothing", (), {"__repr__": lambda self: "<nothing cached>"})()


class _NoCompare:
    """a value that cannot be compared (an array, a query expression): ``==`` / ``!=`` raise"""

    def __init__(self, n):
        self.n = n

    def __eq__(self, other):
        raise ValueError("the truth value of a comparison with this value is ambiguous")

    __ne__ = __eq__
    __hash__ = None

    def __repr__(self):
        return f"<not comparable #{self.n}>"


def _falsify(cls):
    """instances are falsy (a sized container that is empty): an instance all the same"""
    cls.__len__ = lambda self: 0
    return cls


def _small(n):
    """a fresh number object equal to True or False (and to the result of other runs)"""
    return (float("1"), int("1"), float("0"), int("0"), float("-0.0"), complex("1"), True, False)[n % 8]


def make_class(ctx, runs, case, fail_flags):
    LockT = lock_type(ctx, "plock")

    async def getter(self):
        runs.append([self.tag, "running"])
        rec = runs[-1]
        try:
            for _ in range(case.get("susp", 0)):
                await ctx.suspend(("getter", self.tag))
            if fail_flags.get(self.tag):
                fail_flags[self.tag] = False
                rec[1] = "failed"
                raise GETTER_ERRORS[case.get("exc", "ValueError")]("planned getter failure")
            value = ["value", self.tag, len(runs)]
            if case.get("small_value") == "none":
                value = None  # "there is no such thing" is a result, cached like any other
            elif case.get("small_value") == "nocompare":
                value = _NoCompare(len(runs))
            elif case.get("small_value"):
                value = _small(len(runs))
            elif case.get("aw_value"):
                # the cached VALUE is itself awaitable (a job handle, a future): it is data, nobody awaits it
                value = AwaitableItem(("value", self.tag, len(runs)))
            rec[1] = "returned"
            rec.append(value)
            return value
        except BaseException:  # noqa: B902
            if rec[1] == "running":
                rec[1] = "cancelled"
            raise

    form = case.get("getter_form", "function")
    if form == "partial":
        async def getter_with_extra(extra, self):
            return await getter(self)

        given = functools.partial(getter_with_extra, "extra")
    elif form == "bound":
        class _Helper:
            async def compute(self_helper, self):  # noqa: N805
                return await getter(self)

        given = _Helper().compute
    else:
        given = getter
    if case["lock"]:
        class Holder:
            prop = a.cached_property(LockT)(given)
    else:
        class Holder:
            prop = a.cached_property(given)
    Holder.prop.__set_name__(Holder, "prop")
    if case.get("falsy_instance"):
        _falsify(Holder)
    if case.get("frozen"):
        # instances that refuse attribute assignment (like a frozen dataclass): a cached property keeps its value
        # in the instance __dict__ and never goes through __setattr__
        def refuse(self, name, value):
            raise AttributeError(f"cannot assign to field {name!r}")

        Holder.__setattr__ = refuse
    if case.get("subclass"):
        # the instances belong to a subclass of the class that defines the property
        class Derived(Holder):
            pass

        return Derived
    return Holder


def check_seq(case):
    ctx = Ctx("a")
    runs, fail_flags = [], {}
    Holder = make_class(ctx, runs, case, fail_flags)
    objs = [Holder(), Holder()]
    for i, o in enumerate(objs):
        object.__setattr__(o, "tag", i)
    model = [_NOTHING, _NOTHING]    # cached value per instance (None is a value like any other)
    in_dict = [False, False]        # is there anything (value or placeholder) in the instance dict
    taken = []
    flags = {"del-then-await": False, "fail-then-await": False}
    recent = [None, None]

    async def do_await(i, awaitable):
        before = len(runs)
        will_fail = fail_flags.get(i) and model[i] is _NOTHING
        try:
            value = await awaitable
        except AwaitedDataError:
            return ("cached-value-was-awaited", f"instance {i}")
        except FAILURES:
            if not will_fail:
                return ("unexpected-getter-failure", f"instance {i}")
            if len(runs) != before + 1:
                return ("getter-run-count", f"failing await ran getter {len(runs) - before} times")
            recent[i] = "fail"
            return None
        ran = len(runs) - before
        if model[i] is _NOTHING:
            if ran != 1:
                return ("getter-did-not-run-when-nothing-cached", f"instance {i}: ran {ran} times, got {value}")
            if value is not runs[-1][2]:
                return ("await-returned-foreign-value", f"{value}")
            model[i] = value
            in_dict[i] = True
            if recent[i] == "del":
                flags["del-then-await"] = True
            if recent[i] == "fail":
                flags["fail-then-await"] = True
        else:
            if ran != 0:
                return ("getter-ran-although-value-cached", f"instance {i}: ran {ran} times")
            if value is not model[i]:
                return ("cached-value-changed", f"instance {i}: {value} is not {model[i]}")
        recent[i] = "await"
        return None

    async def history():
        for step, (name, arg) in enumerate(case["ops"]):
            if fail_flags.get(f"temp{step}"):
                pass
            if name == "await":
                problem = await do_await(arg, objs[arg].prop)
                if model[arg] is _NOTHING:
                    in_dict[arg] = True  # the placeholder stays behind after a failure
            elif name == "await-temp":
                # `await Holder().prop`: the instance is kept alive by the pending access only
                before = len(runs)
                fresh = Holder()
                object.__setattr__(fresh, "tag", f"temp{step}")
                pending = fresh.prop
                del fresh
                try:
                    value = await pending
                except BaseException as exc:  # noqa: B902
                    return ("temporary-instance", f"step {step}: {exc!r}")
                if len(runs) != before + 1 or value is not runs[-1][2]:
                    return ("temporary-instance", f"step {step}: runs {len(runs) - before} value {value}")
                problem = None
            elif name == "take":
                # with a cached value the attribute IS the (awaitable) value, otherwise a placeholder
                taken.append((arg, objs[arg].prop, model[arg]))
                in_dict[arg] = True
                problem = None
            elif name == "await-taken":
                if not taken:
                    continue
                i, awaitable, value_at_take = taken[arg % len(taken)]
                if value_at_take is not _NOTHING:
                    # an awaitable of an already computed value keeps denoting that value
                    before = len(runs)
                    try:
                        value = await awaitable
                    except AwaitedDataError:
                        return ("cached-value-was-awaited", f"step {step}")
                    problem = None
                    if value is not value_at_take or len(runs) != before:
                        problem = ("taken-value-changed", f"{value} vs {value_at_take}")
                else:
                    problem = await do_await(i, awaitable)
                    if model[i] is _NOTHING:
                        in_dict[i] = True
            elif name == "hash-attr":
                # the attribute (placeholder or cached awaitable) goes into a set / is a dict key, as asyncio.gather
                # and as_completed do with what they are given: that works whatever the cached VALUE is
                try:
                    hash(objs[arg].prop)
                except Exception as exc:
                    return ("attribute-not-hashable", f"step {step}: {exc!r}")
                in_dict[arg] = True
                problem = None
            elif name == "rebind-dict":
                object.__setattr__(objs[arg], "__dict__", dict(vars(objs[arg])))
                problem = None
            elif name == "del":
                try:
                    del objs[arg].prop
                    raised = False
                except AttributeError:
                    raised = True
                if raised == in_dict[arg]:
                    return ("del-behaviour", f"step {step}: raised={raised} but in_dict={in_dict[arg]}")
                model[arg] = _NOTHING
                in_dict[arg] = False
                recent[arg] = "del"
                problem = None
            else:
                fail_flags[arg] = True
                problem = None
            if problem:
                return (problem[0], f"step {step} {name} {arg}: {problem[1]}")
        return None

    problem = expect_return(run(ctx, history()), "C12/sequential")
    if problem:
        raise Violation(f"C12/seq/{problem[0]}", f"{problem[1]} lock={case['lock']}")
    for lock in ctx.locks:
        if lock.locked or lock.acquired != lock.released:
            raise Violation("C12/seq/lock-not-released", f"{lock.name}")
    return {"evaluations": 1, "nontrivial": ["x"] if any(flags.values()) else [],
            "labels": {k: 1 for k, v in flags.items() if v}}


# ---- concurrent ------------------------------------------------------------------


@st.composite
def conc_configs(draw, tier):
    ntasks = draw(st.integers(2, 4))
    cancel = draw(st.one_of(st.none(), st.tuples(st.integers(0, ntasks - 1), st.integers(1, 4))))
    return {"awaits": [draw(st.integers(1, 2)) for _ in range(ntasks)], "lock": draw(st.booleans()),
            "lock_susp": draw(st.booleans()), "lock_release_susp": draw(st.booleans()),
            "susp": draw(st.integers(1, 2)),
            "deleter": draw(st.one_of(st.none(), st.integers(0, 3))),
            "fail_run": draw(st.one_of(st.none(), st.none(), st.integers(1, 2))),
            "small_value": draw(st.sampled_from([False, False, True, "nocompare"])),
            "falsy_instance": draw(st.sampled_from([False, False, True])),
            "shared_mutex": draw(st.sampled_from([False, False, True])),
            "cancel": list(cancel) if cancel else None, "exc": draw(st.sampled_from(sorted(GETTER_ERRORS))),
            "choices": draw(st.lists(st.integers(0, 4), max_size=40))}


def run_conc(case, choices=None, default="rr"):
    ctx = Ctx("a")
    runs = []
    results = []
    deletions = [0]
    flags = {"shared-placeholder": False, "holder-cancelled": False}
    active = [0]
    problems = []
    LockT = lock_type(ctx, "plock", suspend_uncontended=case["lock_susp"],
                      release_susp=case.get("lock_release_susp", False))
    if case.get("shared_mutex"):
        # a lock TYPE whose instances all stand for one and the same mutex (a process-wide lock, a named lock of a
        # lock service): whoever holds "a" lock of this type holds them all
        from ..driver import Lock

        one = Lock(ctx, "the-one-mutex", suspend_uncontended=case["lock_susp"],
                   release_susp=case.get("lock_release_susp", False))

        class LockT:  # noqa: F811
            async def __aenter__(self):
                return await one.__aenter__()

            async def __aexit__(self, *exc):
                return await one.__aexit__(*exc)

    async def getter(self):
        rec = ["running", None, ctx.current_task]
        runs.append(rec)
        n = len(runs)
        active[0] += 1
        if active[0] > 1 and case["lock"] and case["deleter"] is None:
            problems.append(("getter-runs-overlap-despite-lock", f"run {n}"))
        try:
            for _ in range(case["susp"]):
                await ctx.suspend(("getter", n))
            if case["fail_run"] == n:
                rec[0] = "failed"
                rec[1] = GETTER_ERRORS[case.get("exc", "ValueError")]("planned getter failure")
                raise rec[1]
            value = ["value", n] if not case.get("small_value") else \
                (_NoCompare(n) if case["small_value"] == "nocompare" else _small(n))
            rec[0], rec[1] = "returned", value
            return value
        except BaseException:  # noqa: B902
            if rec[0] == "running":
                rec[0] = "cancelled"
                flags["holder-cancelled"] = True
            raise
        finally:
            active[0] -= 1

    if case["lock"]:
        class Holder:
            prop = a.cached_property(LockT)(getter)
    else:
        class Holder:
            prop = a.cached_property(getter)
    Holder.prop.__set_name__(Holder, "prop")
    if case.get("falsy_instance"):
        _falsify(Holder)
    obj = Holder()
    waiting = [0]
    seen_failures = []

    async def awaiter(i):
        for _ in range(case["awaits"][i]):
            waiting[0] += 1
            if waiting[0] >= 2 and active[0]:
                flags["shared-placeholder"] = True
            try:
                value = await obj.prop
            except FAILURES as exc:
                seen_failures.append(exc)
                owner = next((r[2] for r in runs if r[0] == "failed" and r[1] is exc), None)
                if owner != f"t{i}":
                    # the failure of a getter run belongs to the task that ran it; others compute for themselves
                    problems.append(("getter-failure-of-one-task-raised-in-another", f"task {i} got {exc!r} of {owner}"))
                continue
            finally:
                waiting[0] -= 1
            results.append((i, value))

    async def deleter():
        for _ in range(case["deleter"]):
            await ctx.suspend(("deleter", 0))
        try:
            del obj.prop
            deletions[0] += 1
        except AttributeError:
            pass

    named = [(f"t{i}", awaiter(i)) for i in range(len(case["awaits"]))]
    if case["deleter"] is not None:
        named.append(("deleter", deleter()))
    cancel, cancel_obj = {}, None
    if case["cancel"]:
        cancel_obj = Cancel("cancel")
        cancel = {f"t{case['cancel'][0]}": (case["cancel"][1], cancel_obj)}
    sched = Scheduler(ctx, named, case["choices"] if choices is None else choices, cancel=cancel,
                      max_steps=3000, default=default)
    sched.run()
    detail = f"runs={[(r[0], r[1]) for r in runs]} results={results} deletions={deletions[0]}"
    if sched.verdict:
        return sched, [(sched.verdict, f"{detail} trace={sched.trace[-10:]}")], flags
    if problems:
        return sched, problems, flags
    cancelled_name = f"t{case['cancel'][0]}" if case["cancel"] else None
    for t in sched.tasks:
        kind, value = t.outcome
        if getattr(t, "cancelled", False) and not (kind == "raise" and value is cancel_obj):
            # what the loop threw into a task comes out of it again: it is never answered with a value
            return sched, [("cancellation-swallowed", f"{t.name}: {t.outcome!r} {detail}")], flags
        if kind == "raise" and value is cancel_obj and t.name != cancelled_name:
            # a cancellation belongs to the task it was thrown into: others proceed (and compute themselves)
            return sched, [("cancellation-of-one-task-raised-in-another", f"{t.name} {detail}")], flags
        if kind == "raise" and value is not cancel_obj:
            return sched, [("task-raised", f"{t.name}: {value!r}")], flags
    for r in runs:
        if r[0] == "failed" and not any(r[1] is e for e in seen_failures) and (r[2] or "").startswith("t") \
                and not (case["cancel"] and r[2] == cancelled_name):
            # the failure of a getter run reaches the task that ran it (it is not papered over with someone's value)
            return sched, [("getter-failure-swallowed", f"run of {r[2]} failed with {r[1]!r} {detail}")], flags
    returned = [r[1] for r in runs if r[0] == "returned"]
    bad_runs = sum(1 for r in runs if r[0] in ("failed", "cancelled"))
    for i, value in results:
        if not any(value is v for v in returned):
            return sched, [("awaiter-got-value-no-getter-returned", f"task {i}: {value} {detail}")], flags
    for lock in ctx.locks:
        if lock.locked or lock.waiters or lock.acquired != lock.released or lock.errors:
            return sched, [("lock-not-free-at-quiescence", f"{lock.name} locked={lock.locked} "
                            f"acquired={lock.acquired} released={lock.released} {detail}")], flags
    if case["lock"] and case["deleter"] is None:
        if len(returned) > 1:
            return sched, [("getter-returned-more-than-once-despite-lock", detail)], flags
        if len(runs) > 1 + bad_runs:
            return sched, [("getter-ran-more-often-than-needed", detail)], flags
        if returned and any(v is not returned[0] for _, v in results):
            return sched, [("awaiters-got-different-values", detail)], flags
    if case["lock"] and case["deleter"] is not None and len(runs) > 1 + deletions[0] + bad_runs:
        return sched, [("getter-ran-more-often-than-deletions-allow", detail)], flags
    # afterwards: served from the cache
    before = len(runs)
    first = run(ctx, _get(obj))
    if first[0] == "raise" and isinstance(first[1], FAILURES) and case["fail_run"] == before + 1:
        first = run(ctx, _get(obj))
    if first[0] != "return":
        return sched, [("unusable-after-quiescence", f"{first!r} {detail}")], flags
    if returned and deletions[0] == 0 and len(runs) != before:
        # (with or without a lock: a run that returned has published its value - whatever other runs did meanwhile)
        return sched, [("value-not-cached-after-quiescence", detail)], flags
    mid = len(runs)
    second = run(ctx, _get(obj))
    if second[0] != "return" or second[1] is not first[1] or len(runs) != mid:
        return sched, [("later-access-not-served-from-cache", f"{first!r} {second!r} {detail}")], flags
    return sched, [], flags


async def _get(obj):
    return await obj.prop


def check_conc(case):
    sched, problems, flags = run_conc(case)
    if problems:
        kind, detail = problems[0]
        raise Violation(f"C12/conc/{kind}", f"{detail} config={ {k: v for k, v in case.items() if k != 'choices'} }")
    return {"evaluations": 1, "nontrivial": ["x"] if any(flags.values()) else [],
            "labels": {k: 1 for k, v in flags.items() if v}}


def small_configs():
    out = []
    for ntasks in (2, 3):
        for lock in (False, True):
            for deleter in (None, 0, 1):
                for fail_run in (None, 1):
                    out.append({"awaits": [1] * ntasks, "lock": lock, "lock_susp": False, "susp": 1,
                                "deleter": deleter, "fail_run": fail_run, "cancel": None, "choices": []})
    return out


def check_exhaustive(case):
    first = []

    def run_with(prefix):
        sched, problems, _ = run_conc(case, choices=prefix, default="first")
        if problems and not first:
            first.append((problems[0], list(prefix)))
        return sched

    count, complete = all_schedules(run_with, limit=20000)
    if first:
        (kind, detail), prefix = first[0]
        raise Violation(f"C12/conc/{kind}", f"{detail} schedule={prefix}", case=dict(case, choices=prefix))
    return {"evaluations": count, "nontrivial": [f"schedules={count}"] if count > 1 else [],
            "labels": {"exhaustive-configs": 1, "exhaustive-complete": int(complete), "exhaustive-schedules": count}}


# ---- inheritance: an overriding cached property that awaits the parent's ----------------------


def inheritance_cases():
    out = []
    for lock in (False, True):
        for susp in (0, 1):
            for ops in (["await"], ["await", "await"], ["await", "del", "await"], ["take", "await", "await-taken"],
                        ["await", "del", "del-base", "await"]):
                out.append({"lock": lock, "susp": susp, "ops": ops})
    return out


def check_inheritance(case):
    ctx = Ctx("a")
    runs = {"base": 0, "sub": 0}
    LockT = lock_type(ctx, "plock")
    deco = a.cached_property(LockT) if case["lock"] else a.cached_property

    class Base:
        @deco
        async def data(self):
            runs["base"] += 1
            for _ in range(case["susp"]):
                await ctx.suspend(("base", 0))
            return ["base", runs["base"]]

    class Sub(Base):
        @deco
        async def data(self):
            runs["sub"] += 1
            parent = await Base.data.__get__(self, Sub)
            return ["sub", runs["sub"], parent]

    obj = Sub()

    async def history():
        taken = None
        last = None
        for op in case["ops"]:
            if op == "await":
                value = await obj.data
                if last is not None and value is not last:
                    return f"cached value changed: {value} is not {last}"
                last = value
            elif op == "take":
                taken = obj.data
            elif op == "await-taken":
                value = await taken
                if last is not None and value is not last:
                    return f"taken placeholder gave {value}, cached is {last}"
                last = value
            elif op == "del":
                del obj.data
                last = None
            elif op == "del-base":
                pass
        return None

    outcome = run(ctx, history())
    if outcome[0] == "deadlock":
        raise Violation("C12/inheritance/deadlock", f"{case}")
    if outcome[0] == "raise":
        raise Violation("C12/inheritance/raised", f"{case}: {outcome[1]!r}"[:300])
    if outcome[1]:
        raise Violation("C12/inheritance/value", f"{case}: {outcome[1]}")
    computations = 1 + case["ops"].count("del")
    if runs["sub"] != computations:
        raise Violation("C12/inheritance/getter-run-count", f"{case}: {runs}")


# ---- crowds: many getters pending at the same time ---------------------------------------------


def crowd_cases():
    return [{"tasks": n, "lock": lock, "susp": susp, "instances": inst}
            for n in (40, 70, 130, 300) for lock in (False, True) for susp in (1, 3) for inst in ("own", "shared")]


def check_crowd(case):
    """`tasks` tasks await the property at the same time - each on an instance of its own, or all on one instance.
    How many getters are pending at once is nobody's business: everyone gets a value some run returned, instances
    do not see each other's values, with a lock one instance sees one run"""
    ctx = Ctx("a")
    runs = []
    LockT = lock_type(ctx, "plock", suspend_uncontended=False)

    async def getter(self):
        n = len(runs)
        runs.append((self, n))
        for k in range(case["susp"]):
            await ctx.suspend(("getter", n, k))
        return ["value", id(self), n]

    class Holder:
        prop = a.cached_property(LockT)(getter) if case["lock"] else a.cached_property(getter)
    Holder.prop.__set_name__(Holder, "prop")
    objs = [Holder() for _ in range(case["tasks"] if case["instances"] == "own" else 1)]
    results = {}

    async def awaiter(i):
        obj = objs[i % len(objs)]
        results[i] = (obj, await obj.prop)

    sched = Scheduler(ctx, [(f"t{i}", awaiter(i)) for i in range(case["tasks"])], [], max_steps=100000)
    sched.run()
    if sched.verdict:
        raise Violation(f"C12/crowd/{sched.verdict}", f"{case}")
    for t in sched.tasks:
        if t.outcome[0] != "return":
            raise Violation("C12/crowd/task-raised", f"{case}: {t.name}: {t.outcome[1]!r} with {len(runs)} getter runs started")
    for i, (obj, value) in results.items():
        if not (isinstance(value, list) and value[1] == id(obj)):
            raise Violation("C12/crowd/value-of-another-instance", f"{case}: task {i} got {value}")
    per_instance = {}
    for obj, n in runs:
        per_instance[id(obj)] = per_instance.get(id(obj), 0) + 1
    if case["lock"] and any(c != 1 for c in per_instance.values()):
        raise Violation("C12/crowd/getter-ran-more-than-once-despite-lock", f"{case}: {sorted(per_instance.values())[-3:]}")
    if len(per_instance) != len(objs):
        raise Violation("C12/crowd/instance-without-a-run", f"{case}")
    for lock in ctx.locks:
        if lock.locked or lock.waiters or lock.acquired != lock.released or lock.errors:
            raise Violation("C12/crowd/lock-not-free-at-quiescence", f"{case}: {lock.name}")
    return {"evaluations": 1, "nontrivial": ["x"]}


def shards(tier):
    out = [Shard("crowds", check_crowd, cases=crowd_cases, nontrivial=lambda c: True, exhaustive=True)]
    out += [Shard("inheritance", check_inheritance, cases=inheritance_cases, nontrivial=lambda c: True,
                 exhaustive=True)]
    out += [Shard(f"sequential-{i}", check_seq, strategy=seq_histories(tier), n=500, nontrivial=lambda c: False,
                 thorough_mult=20) for i in range(4)]
    out += [Shard(f"schedules-{i}", check_conc, strategy=conc_configs(tier), n=1000, nontrivial=lambda c: False,
                  thorough_mult=15) for i in range(8)]
    cfgs = small_configs()
    if tier == "quick":
        cfgs = [c for c in cfgs if len(c["awaits"]) == 2]
    out += [Shard(f"exhaustive-{j}", check_exhaustive, cases=(lambda part=cfgs[j::4]: part),
                  nontrivial=lambda c: False, exhaustive=True) for j in range(4)]
    return out
