"""C08 - scoped_iter keeps an iterator alive for the block and closes it exactly at exit."""
from hypothesis import strategies as st

from ..runner import Shard, Violation
from ..gen import K, Uids
from ..core import expect_return
from ..driver import Ctx, run, loop_mode, close_orphans, Cancel, Fault
from ..values import sig, mats
from ..doubles import make_source
from .c07 import TOOLS7, SendSource, _END
from .. import env

env.setup()
import asyncstdlib as a  # noqa: E402

PROPERTY = "C08"
LEVEL = "fault_enumeration"
RULE = (
    "Generated block programs: an underlying iterator (async generator / class with aclose / plain-awaitable "
    "class / class with asend+athrow / a list / a one-shot sync iterator / a __getitem__ sequence / a loan (a.borrow) of a class iterator) of 0-8 items is opened with scoped_iter, nested up to depth 3 "
    "(inner scopes over the outer handle, generated entry/exit positions); inside, up to 20 operations from "
    "{next / asend on the handle of any open level, next / asend on a handle whose scope ended, aclose that handle, hand it to one of 26 tools taking j items and "
    "closing or abandoning the tool, next on a handle whose scope already ended, an (erroneous) second __aenter__ of an active scope object}. Exit mode: fall-through, or an "
    "exception (an error, GeneratorExit, KeyboardInterrupt, StopAsyncIteration or asyncio.CancelledError) raised at a generated operation; additionally EVERY suspension point of the fall-through run is "
    "cancelled in a separate run (sources suspend). Model: one shared synchronous iterator with the stdlib tools. "
    "Oracle: every item obtained in the block is next(model) (identity) so each tool sees what follows; aclose of "
    "a scoped handle changes nothing; the underlying is never closed inside the block and exactly once (released) "
    "after it, by the outermost exit only; a handle yields nothing after its own scope ended while outer handles "
    "stay usable; the exception / Cancel object leaves the block unchanged. Non-trivial: >= 2 tool uses with the "
    "second one seeing a non-empty remainder, or depth >= 2, or a non-fall-through exit. One evaluation = one run."
)
ASSUMPTIONS = [
    "iterators without aclose get the documented neutral context and are not generated",
    "athrow through the handle is a deliberate action on the underlying generator and not generated",
    "source cleanup does not suspend in cancellation runs",
]


@st.composite
def programs(draw, tier):
    uids = Uids()
    items = [uids.fix(x) for x in draw(st.lists(K, max_size=8))]
    op = st.one_of(
        st.tuples(st.just("next"), st.integers(0, 2)),
        st.tuples(st.just("next"), st.integers(0, 2)),
        st.tuples(st.just("close"), st.integers(0, 2)),
        st.tuples(st.just("tool"), st.integers(0, 2), st.sampled_from(sorted(TOOLS7)), st.integers(0, 3),
                  st.integers(0, 4), st.booleans()),
        st.tuples(st.just("tool"), st.integers(0, 2), st.sampled_from(sorted(TOOLS7)), st.integers(0, 3),
                  st.integers(0, 4), st.booleans()),
        st.tuples(st.just("enter")),
        st.tuples(st.just("exit")),
        st.tuples(st.just("next-dead")),
        st.tuples(st.just("asend-dead")),
        st.tuples(st.just("close-dead")),
        st.tuples(st.just("asend"), st.integers(0, 2)),
        st.tuples(st.just("reenter"), st.integers(0, 2)),
        # a scope over ANOTHER iterator (distinct, but equal to the first under ==) opened and left inside the block
        st.tuples(st.just("other-scope")),
    )
    ops = [list(o) for o in draw(st.lists(op, max_size=20))]
    if draw(st.integers(0, 3)) == 0:
        # a slicing / batching / windowing tool is run to its END on the shared handle and the handle is used again:
        # how far exactly the tool has read is what the next user of the handle sees
        tname = draw(st.sampled_from(["islice3", "islice3", "islice", "batched", "pairwise", "zip3", "compress-selectors",
                                      "zip_longest2", "takewhile", "zip_strict"]))
        at = draw(st.integers(0, len(ops)))
        ops[at:at] = [["tool", 0, tname, draw(st.integers(0, 3)), 6, False], ["next", 0], ["next", 0]]
    raise_at = draw(st.one_of(st.none(), st.none(), st.integers(0, 20)))
    return {"items": items, "kind": draw(st.sampled_from(["agen", "aclass", "aplain", "send", "list", "iter", "seq", "loan", "areiter", "aproxy"])),
            "susp": draw(st.integers(0, 1)), "ops": ops, "raise_at": raise_at,
            # what leaves the block at raise_at: an ordinary error, or what a generator / task shutdown delivers
            # the underlying iterator's own aclose() fails (once) and leaves it open
            "cfault": draw(st.sampled_from([False, False, False, True])),
            "eqsrc": draw(st.sampled_from([False, True])),
            "falsy": draw(st.sampled_from([False, False, True])),
            "reenter_after": draw(st.sampled_from([False, False, True])),
            "exit_exc": draw(st.sampled_from(["Fault", "Fault", "GeneratorExit", "KeyboardInterrupt",
                                              "StopAsyncIteration", "CancelledError"])),
            "mode": draw(st.sampled_from(["hooks", "bare"]))}


class _Stop(Exception):
    pass


def run_program(case, cancel_at=None):
    ctx = Ctx("a")
    items = mats(case["items"])
    kind = case["kind"]
    spec = {"fl": kind if kind not in ("send", "loan") else "aclass", "susp": case["susp"]}
    if case.get("eqsrc"):
        spec["eqsrc"] = True
    if case.get("falsy"):
        spec["falsy"] = True  # a class-based source that is falsy (a feed whose len() is its backlog)
    other = make_source(ctx, "o", mats([["I", 9, 900], ["I", 9, 901], ["I", 9, 902], ["I", 9, 903]]),
                        {"fl": "aclass", "eqsrc": bool(case.get("eqsrc"))}, "a")
    cfault = bool(case.get("cfault")) and kind in ("aclass", "aplain", "send")
    if cfault:
        spec.update(cfault="LookupError", cfault_open=True)
    if kind in ("send", "loan"):
        src = SendSource(ctx, "u", items, spec)
    else:
        src = make_source(ctx, "u", items, spec, "a")
    underlying = src.obj
    if kind == "loan":
        # what is scoped is itself a loan (a.borrow) of somebody else's iterator: the scope owns - and closes - the
        # loan, never the iterator behind it
        underlying = a.borrow(src.obj)
    observable = kind not in ("list", "iter", "seq", "loan")  # sync iterables are wrapped by the library itself
    model = iter(list(items))
    problems = []
    import asyncio

    planned = {"Fault": Fault, "GeneratorExit": GeneratorExit, "KeyboardInterrupt": KeyboardInterrupt,
               "StopAsyncIteration": StopAsyncIteration,
               "CancelledError": asyncio.CancelledError}[case.get("exit_exc", "Fault")]("planned-block-exception")
    cancel = Cancel("cancel") if cancel_at else None
    dead = []  # handles whose scope has ended

    def fail(kind_, detail):
        problems.append((kind_, detail))
        raise _Stop()

    def closed_now():
        if not observable:
            return False
        if kind == "agen":
            return src.close_calls > 0 or (underlying.ag_frame is None and not src.exhausted)
        return src.close_calls > 0

    async def take(h, live, via="anext"):
        try:
            if via == "asend":
                if not hasattr(h, "asend"):
                    return
                value = await h.asend(None)
            else:
                value = await h.__anext__()
        except StopAsyncIteration:
            if live:
                expected = next(model, _END)
                if expected is not _END:
                    fail("live-scoped-handle-stopped", f"expected {sig(expected)}")
            return
        if not live:
            fail("handle-yields-after-its-scope-ended", f"got {sig(value)}")
        expected = next(model, _END)
        if expected is _END or value is not expected:
            fail("item-not-next-of-underlying", f"got {sig(value)}")

    async def apply_tool(h, tname, k, j, close):
        mk_a, mk_s, is_agg = TOOLS7[tname]
        if is_agg:
            try:
                got = await mk_a(h, k)
            except Exception as exc:
                got = ("raise", type(exc).__name__)
            try:
                want = mk_s(model, k)
            except Exception as exc:
                want = ("raise", type(exc).__name__)
            if sig(got) != sig(want):
                fail("tool-result-differs", f"{tname}: {sig(got)} vs {sig(want)}")
            return
        it_a, it_s = mk_a(h, k), mk_s(model, k)
        for _ in range(j):
            try:
                ga = ("item", sig(await it_a.__anext__()))
            except StopAsyncIteration:
                ga = ("stop",)
            except Exception as exc:
                ga = ("raise", type(exc).__name__)
            try:
                gs = ("item", sig(next(it_s)))
            except StopIteration:
                gs = ("stop",)
            except Exception as exc:
                gs = ("raise", type(exc).__name__)
            if ga != gs:
                fail("tool-items-differ", f"{tname}({k}): async={ga} model={gs}")
            if ga[0] != "item":
                break
        if close and hasattr(it_a, "aclose"):
            await it_a.aclose()

    pos = [0]
    ops = case["ops"]

    async def block(base, depth, stack, scopes=()):
        handle_of_this_level = []
        try:
            await _block(base, depth, stack, scopes, handle_of_this_level)
        finally:
            # however the scope was left (also when its own exit failed) its handle is dead from now on
            for h in handle_of_this_level:
                if h not in dead:
                    dead.append(h)

    async def _block(base, depth, stack, scopes, handle_of_this_level):
        scope = a.scoped_iter(base)
        async with scope as h:
            handle_of_this_level.append(h)
            stack = stack + [h]
            scopes = scopes + (scope,)
            while pos[0] < len(ops):
                i = pos[0]
                op = ops[i]
                pos[0] += 1
                if case["raise_at"] is not None and i == case["raise_at"]:
                    raise planned
                name = op[0]
                if name == "enter":
                    if depth < 3:
                        await block(h, depth + 1, stack, scopes)
                        # the inner handle is dead now, outer ones are not
                elif name == "exit":
                    if depth > 1:
                        break
                elif name == "other-scope":
                    if not (other.closed or other.exhausted):
                        async with a.scoped_iter(other.obj) as h2:
                            try:
                                await h2.__anext__()
                            except StopAsyncIteration:
                                pass
                        if not other.released:
                            fail("second-scoped-iterator-not-closed-at-its-exit", f"op {i}")
                elif name == "next-dead":
                    if dead:
                        await take(dead[-1], live=False)
                elif name == "asend-dead":
                    if dead:
                        await take(dead[-1], live=False, via="asend")
                elif name == "close-dead":
                    # a late close of a handle whose scope is over (a tool that still held it cleans up): it stays dead
                    if dead:
                        await dead[-1].aclose()
                        await take(dead[-1], live=False)
                else:
                    target = stack[op[1] % len(stack)]
                    if name == "next":
                        await take(target, live=True)
                    elif name == "asend":
                        await take(target, live=True, via="asend")
                    elif name == "close":
                        await target.aclose()
                    elif name == "reenter":
                        # misuse: entering a scope object that is already active; whether or not that is
                        # refused, the scope that IS active must be unaffected
                        try:
                            await scopes[op[1] % len(scopes)].__aenter__()
                        except Exception:
                            pass
                    elif name == "tool":
                        await apply_tool(target, op[2], op[3], op[4], op[5])
                if closed_now():
                    fail("underlying-closed-inside-block", f"after op {i}: {op}")
        if depth > 1 and closed_now():
            fail("inner-scope-closed-underlying", f"depth {depth}")
        if case.get("reenter_after") and depth == 1:
            # the block is over: the same context object does not open a second scope over the (closed) iterator -
            # it is used up, like the handle it gave out
            try:
                async with scope as again:
                    try:
                        value = await again.__anext__()
                    except StopAsyncIteration:
                        value = _END
            except RuntimeError:
                pass
            else:
                fail("used-up-scope-entered-again", f"and its handle gave {sig(value) if value is not _END else 'nothing'}")

    async def program():
        try:
            await block(underlying, 1, [])
        except _Stop:
            return "stopped"
        return "done"

    with loop_mode(ctx, case["mode"]):
        outcome = run(ctx, program(), cancel_at, cancel)
        n = ctx.last_suspensions
        if problems:
            kind_, detail = problems[0]
            raise Violation(f"C08/{kind_}", f"{detail} kind={kind} mode={case['mode']} cancel_at={cancel_at}",
                            case=dict(case, cancel_at=cancel_at))
        vcase = dict(case, cancel_at=cancel_at)
        if cfault and outcome[0] == "raise" and outcome[1] is src.close_fault:
            pass  # the failure of the underlying iterator's own aclose() replaces whatever was leaving the block
        elif cancel_at and ctx.cancel_delivered:
            if outcome[0] != "raise" or outcome[1] is not cancel:
                raise Violation("C08/cancellation-not-propagated", repr(outcome), case=vcase)
        elif case["raise_at"] is not None and case["raise_at"] < len(ops) and outcome[0] == "raise":
            if outcome[1] is not planned:
                raise Violation("C08/exception-replaced", repr(outcome), case=vcase)
        elif outcome[0] != "return":
            if outcome[0] == "raise" and (outcome[1] is planned or (cfault and outcome[1] is src.close_fault)):
                pass
            else:
                expect_return(outcome, "C08/program")
        # after the outermost exit
        if cfault:
            if not src.close_calls:
                raise Violation("C08/underlying-not-closed-at-exit", f"kind={kind}: aclose never called", case=vcase)
            if src.close_calls > 1:
                # "closed exactly once": also when that one aclose() fails - its failure is the caller's to handle
                raise Violation("C08/underlying-closed-more-than-once", f"calls={src.close_calls} (the first one failed)",
                                case=vcase)
        elif observable:
            if not src.released:
                raise Violation("C08/underlying-not-closed-at-exit", f"kind={kind} outcome={outcome[0]}", case=vcase)
            if src.close_calls > 1 and kind != "agen":
                raise Violation("C08/underlying-closed-more-than-once", f"calls={src.close_calls}", case=vcase)
        if kind == "areiter" and src.opens != 1:
            # "the underlying iterator is closed exactly once": one close covers one iterator - a scope that asks its
            # iterable for an iterator twice has opened something nobody closes
            raise Violation("C08/iterable-asked-for-an-iterator-more-than-once", f"opens={src.opens}", case=vcase)
        if kind == "loan":
            if src.close_calls:
                raise Violation("C08/scope-closed-the-iterator-behind-a-loan", f"calls={src.close_calls}", case=vcase)

            async def probe_loan():
                before = src.pulls
                out = []
                for via in ("__anext__", "asend"):
                    try:
                        value = await (underlying.__anext__() if via == "__anext__" else underlying.asend(None))
                    except StopAsyncIteration:
                        continue
                    out.append((via, sig(value)))
                return out, src.pulls - before

            got = run(ctx, probe_loan())
            if got[0] != "return" or got[1][0] or (got[1][1] and not src.exhausted):
                raise Violation("C08/underlying-not-closed-at-exit", f"the scoped loan still works after the block: {got!r}",
                                case=vcase)
        # every handle is dead now

        async def probe():
            for h in dead:
                try:
                    value = await h.__anext__()
                except StopAsyncIteration:
                    continue
                return sig(value)
            return None

        leaked = run(ctx, probe())
        if leaked[0] != "return" or leaked[1] is not None:
            raise Violation("C08/handle-yields-after-block", repr(leaked), case=vcase)
        close_orphans(ctx)
    return n


def check(case):
    if case.get("cancel_at"):
        run_program(case, case["cancel_at"])
        return None
    n = run_program(case, None)
    runs = 1
    keys = ["fall-through" if case["raise_at"] is None else "raise"] if nontrivial_base(case) else []
    if case["raise_at"] is None:
        for i in range(1, n + 1):
            run_program(case, i)
            runs += 1
            keys.append(f"cancel@{i}")
    return {"evaluations": runs, "nontrivial": keys, "labels": {"cancel-runs": runs - 1}}


def nontrivial_base(case):
    ops = case["ops"]
    tools = [o for o in ops if o[0] == "tool"]
    return (len(tools) >= 2 and len(case["items"]) >= 2) or any(o[0] == "enter" for o in ops) \
        or case["raise_at"] is not None


def classify(case):
    out = [f"underlying-{case['kind']}"]
    depth = 1 + sum(1 for o in case["ops"] if o[0] == "enter")
    out.append(f"enters-{min(depth - 1, 3)}")
    if case["raise_at"] is not None:
        out.append("exit-by-exception")
    return out


@st.composite
def uncloseable_cases(draw):
    return {"n": draw(st.integers(0, 8)), "kind": draw(st.sampled_from(["aclass_noclose", "areiter_noclose"])),
            "steps": draw(st.lists(st.tuples(st.sampled_from(["islice", "next", "takewhile", "zip"]), st.integers(0, 3)),
                                   min_size=1, max_size=5))}


def check_uncloseable(case):
    """sources that cannot be closed at all (no aclose; an async iterable whose cursors have none): there is nothing to
    protect and nothing to close, but INSIDE the block the provided iterator is one shared position like any other -
    each tool sees the items that follow those consumed before (nothing is claimed about the time after the block)"""
    import itertools

    ctx = Ctx("a")
    items = list(range(case["n"]))
    src = make_source(ctx, "u", items, {"fl": case["kind"]}, "a")
    model = iter(items)

    async def program():
        got, want = [], []
        async with a.scoped_iter(src.obj) as h:
            for name, k in case["steps"]:
                if name == "next":
                    try:
                        got.append(await h.__anext__())
                    except StopAsyncIteration:
                        got.append("stop")
                    want.append(next(model, "stop"))
                elif name == "islice":
                    got.append([x async for x in a.islice(h, k)])
                    want.append(list(itertools.islice(model, k)))
                elif name == "takewhile":
                    got.append([x async for x in a.takewhile(lambda x: x % 4 != 3, h)])
                    want.append(list(itertools.takewhile(lambda x: x % 4 != 3, model)))
                else:
                    got.append([x async for x in a.zip(range(k), h)])
                    want.append(list(zip(range(k), model)))
        return got, want

    with loop_mode(ctx, "hooks"):
        outcome = run(ctx, program())
        close_orphans(ctx)
    got, want = expect_return(outcome, "C08/uncloseable")
    if got != want:
        raise Violation("C08/item-not-next-of-underlying", f"kind={case['kind']} steps={case['steps']}: scoped={got} "
                                                           f"shared sync iterator={want}")
    if case["kind"] == "areiter_noclose" and src.opens != 1:
        raise Violation("C08/iterable-asked-for-an-iterator-more-than-once", f"opens={src.opens}")
    return {"evaluations": 1, "nontrivial": ["x"] if len(case["steps"]) >= 2 and case["n"] >= 2 else [], "labels": {}}


def shards(tier):
    out = [Shard(f"programs-{i}", check, strategy=programs(tier), n=400, nontrivial=lambda c: False,
                 classify=classify, thorough_mult=20) for i in range(8)]
    out.append(Shard("uncloseable-sources", check_uncloseable, strategy=uncloseable_cases(), n=400,
                     nontrivial=lambda c: False, thorough_mult=10))
    return out
