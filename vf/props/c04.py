"""C04 - owned async iterators are released when a tool finishes, fails or is closed."""
import copy

from hypothesis import strategies as st

from ..runner import Shard, Violation
from ..tools import ITER_TOOLS, AGG_TOOLS, TOOLS
from ..gen import base_case, features, K, Uids, EXC_NAMES
from ..core import expect_return, build, consumer_view, planned_name, run_sync
from ..driver import Ctx, run, loop_mode, close_orphans, make_exc
from ..values import sig, mats
from ..doubles import make_source, Fn
from .c06 import uses_of, with_fault

PROPERTY = "C04"
LEVEL = "fault_enumeration"
RULE = (
    "Per tool / aggregation Hypothesis draws an input, source flavours (async generator, class with "
    "aclose, class whose __anext__ returns a plain awaitable, class without aclose, class behind a delegating proxy "
    "whose aclose is only reachable through __getattr__, re-iterable async iterable whose every __aiter__ opens a "
    "cursor of its own; optionally sources with value equality: distinct sources compare equal), whether source "
    "cleanup suspends, and the loop mode (asyncgen hooks like a real loop / none). The case is then "
    "expanded exhaustively: EVERY number of items taken before closing (0..exhaustion+1), running to "
    "exhaustion, EVERY single fault position of every source and callable, and a consumer athrow after "
    "every prefix. Invariant after each run (strong references held, before any GC; on the raise path "
    "after the owner also closed the handle): every async iterator with aclose that was passed in is "
    "closed or exhausted (chain.from_iterable: the outer and the inner ones already fetched; unstarted "
    "generator tools owe nothing, unstarted chain/tee/groupby handles do); aclose of a library iterator "
    "raises nothing the doubles did not raise. tee: generated advance/close histories over 1-4 children, "
    "after every operation the source is released iff all children are done (closed/exhausted) and never "
    "closed twice; groupby: advance/close histories over groups; pipelines: compositions of 2-3 tools closed "
    "after j items must release the innermost source. Non-trivial: a close after 0 < j < len "
    "items, a fault while another source is live, an unstarted handle, or >= 2 sources. One evaluation = one run."
)
ASSUMPTIONS = [
    "a source that raised by itself counts as released (a failed async generator is finished)",
    "released is observed through the doubles (ag_frame is None / closed flag), not through library internals",
    "parameter-validation errors are not generated",
]

ASYNC_CLOSEABLE = ("agen", "aclass", "aplain", "agenlike", "aproxy", "areiter", "alateclose", "agencoro", "aclass_awaitable", "aclass_cm")
ALL = [t for t in ITER_TOOLS if t != "tee"] + AGG_TOOLS


@st.composite
def cases(draw, name, tier, many=False):
    case = draw(base_case(name, max_len=4 if tier == "quick" else 6, max_src=3) if not many else
                base_case(name, max_len=3, max_src=5, min_src=3))
    if name != "iter_sentinel":
        for s in case["srcs"]:
            s["fl"] = draw(st.sampled_from(["agen", "agen", "aclass", "aplain", "aclass_noclose", "agenlike",
                                             "aproxy", "areiter", "alateclose", "agencoro", "aclass_awaitable", "aclass_cm"]))
            s["eqsrc"] = draw(st.sampled_from([False] * 3 + [True, "unhashable"]))
            s["falsy"] = draw(st.integers(0, 3)) == 0
            if draw(st.integers(0, 5)) == 0 and s["fl"] not in ("agen", "aclass_noclose", "areiter"):
                # this source's own aclose() fails (after having closed it): the OTHER sources must be released anyway
                s["cfault"] = "LookupError"
            s["csusp"] = draw(st.booleans())
            s["cret"] = draw(st.sampled_from([None, None, True, "closed"]))
    if name == "chain_from_iterable":
        case["params"]["outer"]["fl"] = draw(st.sampled_from(["agen", "aclass", "list"]))
        case["params"]["outer"]["csusp"] = draw(st.booleans())
        case["params"]["outer"]["falsy"] = draw(st.integers(0, 2)) == 0
    for spec in case["fns"].values():
        spec["fl"] = draw(st.sampled_from(["def", "async"]))
    case["mode"] = draw(st.sampled_from(["hooks", "bare"]))
    case["exc"] = draw(st.sampled_from(EXC_NAMES))  # the type of the injected single faults
    # after the iterator ended or failed the consumer asks once more (and is told "finished") before closing it
    case["repoll"] = draw(st.booleans())
    return case


async def scenario(b, case):
    """advance ``j`` times, then act: close | throw | none; the owner always closes last."""
    ctx = b.ctx
    tool = b.tool
    j, action = case["j"], case["action"]
    b.advanced = False
    if tool.kind == "agg":
        try:
            await tool.make_a(b.S, b.F, b.P, b.V)
        except BaseException as exc:  # noqa: B902
            ctx.ev("raise", 0, type(exc).__name__, planned_name(ctx, exc))
        else:
            ctx.ev("return", 0)
        b.advanced = True
        return
    out = tool.make_a(b.S, b.F, b.P, b.V)
    b.handle = out
    for _ in range(j):
        b.advanced = True
        try:
            value = await out.__anext__()
        except StopAsyncIteration:
            ctx.ev("stop", 0)
            break
        except BaseException as exc:  # noqa: B902
            ctx.ev("raise", 0, type(exc).__name__, planned_name(ctx, exc))
            break
        else:
            ctx.ev("yield", 0, sig(value))
            del value
    if b.advanced and ctx.log and ctx.log[-1][0] in ("stop", "raise"):
        # "by the time that raise/exhaustion completes": looked at NOW, before the consumer does anything else
        # (a later aclose() of a handle that closes what it owns would hide a source left open here)
        # - for the sources the tool had begun to use; one it never touched may wait for the handle's own aclose()
        #   (chain(a, b) failing in a: b is closed by chain.aclose(), the documented "closes them when closed")
        b.extra = {"open-at-end": [s_.name for s_ in owed_sources(b, case) if not s_.released and s_.pulls],
                   "how": ctx.log[-1][0]}
    if case.get("repoll") and b.advanced and ctx.log and ctx.log[-1][0] in ("stop", "raise"):
        try:
            await out.__anext__()
        except StopAsyncIteration:
            pass
        except BaseException as exc:  # noqa: B902
            ctx.ev("raise-on-repoll", 0, type(exc).__name__, planned_name(ctx, exc))
        else:
            ctx.ev("yield-on-repoll", 0)
    if action == "throw" and hasattr(out, "athrow"):
        thrown = make_exc("Fault", "consumer-throw")
        ctx.planned["consumer"] = thrown
        try:
            await out.athrow(thrown)
        except StopAsyncIteration:
            ctx.ev("stop", 0)
        except BaseException as exc:  # noqa: B902
            ctx.ev("raise", 0, type(exc).__name__, planned_name(ctx, exc))
        else:
            ctx.ev("yield-after-throw", 0)
        if b.advanced is False:
            # athrow into an unstarted generator finishes it without running it
            pass
    closer = getattr(out, "aclose", None)
    if closer is not None:
        try:
            await closer()
        except BaseException as exc:  # noqa: B902
            ctx.ev("close-raise", type(exc).__name__, planned_name(ctx, exc), str(exc)[:100])


def owed_sources(b, case):
    tool = b.tool
    name = tool.name
    if not b.advanced and name != "chain":
        return []
    owed = []
    if tool.outer:
        fetched = b.outer.idx
        inner = b.srcs[:fetched]
        if (case["params"]["outer"].get("fl") in ASYNC_CLOSEABLE):
            owed.append(b.outer)
    else:
        inner = b.srcs
    if tool.callsrc:
        return []
    for s, spec in zip(b.srcs, case["srcs"]):
        if any(s is x for x in inner) and spec["fl"] in ASYNC_CLOSEABLE:
            owed.append(s)
    return owed


def run_one(c):
    tool = c["tool"]
    b = build(c, "a")
    with loop_mode(b.ctx, c["mode"]):
        outcome = run(b.ctx, scenario(b, c))
        expect_return(outcome, f"C04/{tool}", c)
        log = b.ctx.log
        bad_close = [e for e in log if e[0] == "close-raise" and e[2] is None]
        if bad_close:
            raise Violation(f"C04/{tool}/aclose-raises", f"{bad_close[0]} mode={c['mode']}", case=c)
        meddling = [e for e in log if e[0] in ("asend", "athrow")]
        if meddling:
            raise Violation(f"C04/{tool}/library-sends-or-throws-into-a-source", f"{meddling[:2]}", case=c)
        at_end = b.extra if isinstance(getattr(b, "extra", None), dict) else {}
        if at_end.get("open-at-end"):
            raise Violation(f"C04/{tool}/source-still-open-when-the-{at_end['how']}-completed",
                            f"open={at_end['open-at-end']} j={c['j']} fault={c.get('fault_at')} mode={c['mode']} "
                            f"events={consumer_view(log)[-3:]}", case=c)
        leaked = [s.name for s in owed_sources(b, c) if not s.released]
        if leaked:
            what = "fault" if c.get("fault_at") else c["action"]
            raise Violation(f"C04/{tool}/source-not-released-after-{what}",
                            f"leaked={leaked} j={c['j']} action={c['action']} fault={c.get('fault_at')} "
                            f"mode={c['mode']} events={consumer_view(log)[-3:]}", case=c)
        double_close = [s.name for s in b.srcs if getattr(s, "close_calls", 0) > 1 and c["srcs"][int(s.name[1:])]["fl"] == "agen"]
        close_orphans(b.ctx)
    return b


def expand(case):
    """All sub-cases of a generated case."""
    tool = TOOLS[case["tool"]]
    base = copy.deepcopy(case)
    subs = []
    if tool.kind == "iter":
        ref = run_sync(dict(base, plan=[0] * (features(base)["total"] + 4 if not tool.infinite else 6)))
        n_events = len(consumer_view(ref.ctx.log))
        for j in range(0, n_events + 2):
            subs.append(dict(copy.deepcopy(base), j=j, action="close", single=True))
        for j in range(0, n_events + 1):
            subs.append(dict(copy.deepcopy(base), j=j, action="throw", single=True))
        full = n_events + 1
    else:
        subs.append(dict(copy.deepcopy(base), j=0, action="none", single=True))
        full = 0
    probe = dict(base, plan=[0] * (features(base)["total"] + 4 if not tool.infinite else 6))
    for res, at in uses_of(probe):
        if res.startswith("s") and res[1:].isdigit() and base["srcs"][int(res[1:])]["fl"] == "list":
            continue
        if res == "outer" and base["params"]["outer"].get("fl") == "list":
            continue
        c = with_fault(base, res, at, base.get("exc", "Fault"))
        c.update(j=full, action="none", single=True)
        subs.append(c)
    return subs


def check(case):
    if case.get("single"):
        run_one(case)
        return None
    subs = expand(case)
    nontrivial = []
    total = features(case)["total"]
    for c in subs:
        b = run_one(c)
        interesting = (
            (c["action"] == "close" and 0 < c["j"] <= total)
            or (c.get("fault_at") and len(c["srcs"]) >= 2)
            or (c["j"] == 0 and c["tool"] == "chain")
            or len(c["srcs"]) >= 2
        )
        if interesting:
            nontrivial.append(f"{c['j']}:{c['action']}:{c.get('fault_at')}")
    return {"evaluations": len(subs), "nontrivial": nontrivial,
            "labels": {"runs-close": sum(1 for c in subs if c["action"] == "close"),
                       "runs-throw": sum(1 for c in subs if c["action"] == "throw"),
                       "runs-fault": sum(1 for c in subs if c.get("fault_at")),
                       f"mode-{case['mode']}": len(subs)}}


# ---------------------------------------------------------------------------
# tee histories


@st.composite
def tee_cases(draw, tier):
    uids = Uids()
    items = [uids.fix(x) for x in draw(st.lists(K, max_size=4))]
    n = draw(st.integers(1, 4))
    # "abandon": an __anext__() awaitable is created but never started (a task cancelled before its first step)
    ops = draw(st.lists(st.tuples(st.sampled_from(["next", "next", "next", "close", "close", "abandon"]),
                                  st.integers(0, n - 1)), max_size=14))
    ops = [list(o) for o in ops]
    if draw(st.booleans()):
        ops.insert(draw(st.integers(0, len(ops))), ["close-handle", 0])
    return {"tool": "tee", "items": items, "n": n, "ops": ops,
            "fl": draw(st.sampled_from(["agen", "aclass", "aplain", "aproxy"])),
            "csusp": draw(st.booleans()), "mode": draw(st.sampled_from(["hooks", "bare"])),
            "fault": draw(st.one_of(st.none(), st.integers(1, 5)))}


def check_tee(case):
    import asyncstdlib as a

    ctx = Ctx("a")
    spec = {"fl": case["fl"], "csusp": case["csusp"],
            "fault": {"at": case["fault"], "exc": "Fault"} if case["fault"] else None}
    src = make_source(ctx, "s0", mats(case["items"]), spec, "a")
    n = case["n"]
    problems = []

    async def history():
        handle = a.tee(src.obj, n)
        children = list(handle)
        done = [False] * n
        for step, (op, i) in enumerate(case["ops"]):
            try:
                if op == "next":
                    if done[i]:
                        continue
                    try:
                        await children[i].__anext__()
                    except StopAsyncIteration:
                        done[i] = True
                    except BaseException as exc:  # noqa: B902
                        if planned_name(ctx, exc) is None:
                            problems.append(("unexpected-raise", step, repr(exc)))
                        done[i] = True
                elif op == "close":
                    await children[i].aclose()
                    done[i] = True
                elif op == "abandon":
                    if done[i]:
                        continue
                    never_started = children[i].__anext__()
                    if hasattr(never_started, "close"):
                        never_started.close()
                    del never_started
                else:
                    await handle.aclose()
                    done = [True] * n
            except BaseException as exc:  # noqa: B902
                problems.append(("aclose-raises", step, repr(exc)[:120]))
                return
            if all(done) and not src.released:
                problems.append(("source-not-released-when-last-child-done", step, list(done)))
                return
            if not all(done) and (src.closed or src.close_calls):
                problems.append(("source-closed-while-children-live", step, list(done)))
                return
            if src.close_calls > 1:
                problems.append(("source-closed-twice", step, src.close_calls))
                return
        try:
            await handle.aclose()
        except BaseException as exc:  # noqa: B902
            problems.append(("aclose-raises", "final", repr(exc)[:120]))
            return
        if not src.released:
            problems.append(("source-not-released-after-handle-close", "final", list(done)))

    with loop_mode(ctx, case["mode"]):
        outcome = run(ctx, history())
        expect_return(outcome, f"C04/tee")
        if problems:
            kind, step, detail = problems[0]
            raise Violation(f"C04/tee/{kind}", f"step={step} {detail} mode={case['mode']}")
        close_orphans(ctx)


def tee_nontrivial(case):
    ops = case["ops"]
    closes = [o for o in ops if o[0] != "next"]
    return bool(closes) and len(ops) >= 2 and case["n"] >= 2


# ---------------------------------------------------------------------------
# groupby histories


@st.composite
def groupby_cases(draw, tier):
    uids = Uids()
    items = [uids.fix(x) for x in draw(st.lists(K, max_size=6))]
    ops = draw(st.lists(st.sampled_from(["gb", "gb", "group", "group", "close-group", "close-gb"]), max_size=10))
    key = draw(st.one_of(st.none(), st.lists(st.integers(0, 2).map(lambda n: ["i", n]), min_size=1, max_size=4)))
    return {"tool": "groupby", "items": items, "ops": ops, "key": key,
            "keyfl": draw(st.sampled_from(["def", "async"])),
            "fl": draw(st.sampled_from(["agen", "aclass", "aplain", "aproxy"])),
            "csusp": draw(st.booleans()), "mode": draw(st.sampled_from(["hooks", "bare"])),
            # the source's own aclose() fails once and leaves it open: closing the handle again must close it
            "cfault": draw(st.sampled_from([False, False, True])),
            "fault": draw(st.one_of(st.none(), st.tuples(st.sampled_from(["s0", "key"]), st.integers(1, 5))))}


def check_groupby(case):
    import asyncstdlib as a

    ctx = Ctx("a")
    fault = case["fault"]
    spec = {"fl": case["fl"], "csusp": case["csusp"],
            "fault": {"at": fault[1], "exc": "Fault"} if fault and fault[0] == "s0" else None}
    if case.get("cfault") and case["fl"] != "agen":
        spec.update(cfault="LookupError", cfault_open=True)
    src = make_source(ctx, "s0", mats(case["items"]), spec, "a")
    keyfn = None
    if case["key"] is not None:
        kspec = {"kind": "table", "fl": case["keyfl"],
                 "fault": {"at": fault[1], "exc": "Fault"} if fault and fault[0] == "key" else None}
        keyfn = Fn(ctx, "key", kspec, mats(case["key"]), "a").callable
    problems = []

    async def history():
        gb = a.groupby(src.obj, keyfn) if keyfn is not None else a.groupby(src.obj)
        group = None
        for step, op in enumerate(case["ops"]):
            try:
                if op == "gb":
                    try:
                        _, group = await gb.__anext__()
                    except StopAsyncIteration:
                        pass
                elif op == "group" and group is not None:
                    try:
                        await group.__anext__()
                    except StopAsyncIteration:
                        pass
                elif op == "close-group" and group is not None:
                    await group.aclose()
                elif op == "close-gb":
                    await gb.aclose()
                    if not src.released:
                        problems.append(("source-not-released-after-close", step, ""))
                        return
            except BaseException as exc:  # noqa: B902
                if planned_name(ctx, exc) is None:
                    problems.append(("unexpected-raise", step, f"{op}: {exc!r}"[:160]))
                    return
        for attempt in (1, 2):
            try:
                await gb.aclose()
                break
            except BaseException as exc:  # noqa: B902
                if attempt == 2 or planned_name(ctx, exc) is None:
                    problems.append(("aclose-raises", "final", repr(exc)[:120]))
                    return
        if not src.released:
            problems.append(("source-not-released-after-close", "final", ""))

    with loop_mode(ctx, case["mode"]):
        outcome = run(ctx, history())
        expect_return(outcome, f"C04/groupby")
        if problems:
            kind, step, detail = problems[0]
            raise Violation(f"C04/groupby/{kind}", f"step={step} {detail} mode={case['mode']}")
        close_orphans(ctx)


def check_pipeline(case):
    from ..pipelines import run_both

    outcome, events_s, src, ctx_a, ctx_s, released, close_errors = run_both(case)
    expect_return(outcome, "C04/pipeline")
    if close_errors:
        raise Violation("C04/pipeline/aclose-raises", f"stages={case['stages']} mode={case['mode']} {close_errors[0]}")
    # the tool holding the source was advanced iff the source was pulled at least once
    advanced = src.pulls > 0 and (case["take"] is None or case["take"] > 0)  # ... and so was the outermost tool
    lends = any(st_[0] == "borrow" for st_ in case["stages"])  # a borrowed source is never owed a close
    if run_both.info.get("unstarted_stage"):
        # (e.g. accumulate - partly consumed - handed to a second accumulate that chain([k], ...) never got to)
        return {"evaluations": 1, "nontrivial": [], "labels": {"unstarted-stage": 1}}
    if case["fl"] in ASYNC_CLOSEABLE and advanced and not lends and not released:
        raise Violation("C04/pipeline/source-not-released", f"stages={case['stages']} take={case['take']} "
                        f"mode={case['mode']} fl={case['fl']}")


@st.composite
def crowd_cases(draw):
    return {"tool": draw(st.sampled_from(["zip", "chain", "merge", "zip_longest", "map", "tee"])),
            "n": draw(st.sampled_from([600, 1100, 1500, 2100])), "take": draw(st.integers(0, 2)),
            "fl": draw(st.sampled_from(["aclass", "aclass", "agen"])), "fail_close": draw(st.sampled_from([None, None, 3, 700]))}


def check_crowd(case):
    """a tool that owns MANY iterators (hundreds to thousands: more than the interpreter's recursion limit) releases
    all of them when it is closed - cleanup must not cost a stack frame per iterator"""
    import asyncstdlib as a
    from ..driver import Ctx, run, loop_mode, close_orphans
    from ..values import Item

    ctx = Ctx("a")
    n, tool = case["n"], case["tool"]
    srcs = [make_source(ctx, f"s{i}", [Item(i % 5, i)], {"fl": case["fl"]}, "a") for i in range(n if tool != "tee" else 1)]
    if case["fail_close"] is not None and case["fl"] == "aclass" and tool != "tee":
        k = min(case["fail_close"], n - 1)
        srcs[k] = make_source(ctx, f"s{k}", [Item(0, k)], {"fl": "aclass", "cfault": "LookupError"}, "a")

    async def scenario():
        objs = [s_.obj for s_ in srcs]
        if tool == "tee":
            handle = a.tee(objs[0], n)
            for child in list(handle)[:case["take"]]:
                await child.__anext__()
            await handle.aclose()
            return None
        it = {"zip": lambda: a.zip(*objs), "chain": lambda: a.chain(*objs), "merge": lambda: a.merge(*objs, key=lambda x: x.key),
              "zip_longest": lambda: a.zip_longest(*objs), "map": lambda: a.map(lambda *xs: len(xs), *objs)}[tool]()
        for _ in range(case["take"]):
            try:
                await it.__anext__()
            except (StopAsyncIteration, LookupError):  # (LookupError: the planned failure of one source's aclose)
                break
        try:
            await it.aclose()
        except LookupError:
            pass
        return None

    with loop_mode(ctx, "hooks"):
        outcome = run(ctx, scenario())
        expect_return(outcome, f"C04/{tool}")
        # zip / zip_longest / map / merge have touched every source once the first item was asked for; chain closes
        # what it owns in any case
        owed = srcs if (case["take"] or tool in ("chain", "tee")) else []
        leaked = [s_.name for s_ in owed if not s_.released]
        close_orphans(ctx)
    if leaked:
        raise Violation(f"C04/{tool}/source-not-released-among-many", f"{len(leaked)} of {len(srcs)} sources left open "
                        f"(first: {leaked[:3]}) take={case['take']} fail_close={case['fail_close']}")
    return {"evaluations": 1, "nontrivial": ["x"] if case["take"] else [], "labels": {}}


def pipeline_nontrivial(case):
    return case["fl"] in ASYNC_CLOSEABLE and case["take"] is not None and 0 < case["take"] <= len(case["items"])


def shards(tier):
    from ..pipelines import pipelines

    out = [Shard(f"pipelines-{i}", check_pipeline, strategy=pipelines(3 if tier == "quick" else 4), n=1500,
                 nontrivial=pipeline_nontrivial, thorough_mult=15) for i in range(4)]
    out += [
        Shard(name, check, strategy=cases(name, tier), n=60, nontrivial=lambda c: False,
              thorough_mult=25)
        for name in ALL
    ]
    # several sources of very different lengths (empty ones included): bookkeeping by position / rank
    out += [Shard(f"many-{name}", check, strategy=cases(name, tier, many=True), n=300, nontrivial=lambda c: False,
                  thorough_mult=25) for name in ("merge", "zip", "zip_longest", "chain", "map")]
    out.append(Shard("crowds", check_crowd, strategy=crowd_cases(), n=24, fuzz=0, nontrivial=lambda c: False,
                     thorough_mult=4))
    out.append(Shard("tee-histories", check_tee, strategy=tee_cases(tier), n=1500,
                     nontrivial=tee_nontrivial, thorough_mult=25))
    out.append(Shard("groupby-histories", check_groupby, strategy=groupby_cases(tier), n=1500,
                     nontrivial=lambda c: len(c["ops"]) >= 2, thorough_mult=25))
    return out
