"""C03 - async neutrality: sync and async arguments are interchangeable."""
import copy
import inspect

from hypothesis import strategies as st

from ..runner import Shard, Violation
from ..tools import ITER_TOOLS, AGG_TOOLS, TOOLS
from ..gen import base_case, features, EXC_NAMES
from ..core import expect_return, run_async, run_sync, consumer_view, first_diff, build
from ..driver import Ctx, run
from .c06 import uses_of, with_fault

PROPERTY = "C03"
LEVEL = "exploration"
RULE = (
    "Metamorphic: a generated C01/C02 case (tool, data, parameters, optionally one planned fault at a "
    "generated use) is run through the library once with all-synchronous arguments (list or one-shot "
    "iterator sources, plain def callables) and then under 6 generated flavour assignments - each iterable "
    "in {list, __getitem__ sequence, sync iterator, re-iterable sync / async iterable, async generator, class-based "
    "async iterator (also behind a delegating proxy), class "
    "whose __anext__ returns a plain awaitable}, each callable in {def, async def, partial(async def), "
    "callable object returning a coroutine / a plain awaitable object, falsy callable object, callable objects with "
    "value equality (sync and async __call__) or without hash, generator-based coroutine function (types.coroutine)}; "
    "a callable may return a CLASS whose instances are awaitable; items (identity), return value and raised exception "
    "(planned object identity / type) must not change; sometimes a SECOND fault is planned on another resource (which "
    "of the two is met first must not depend on the flavours). Second oracle: the object each library callable "
    "returns before awaiting/iterating is an awaitable, async iterator or async context manager for every "
    "flavour (plus a fixed surface list: sync, apply, any_iter, await_each, borrow, scoped_iter, closing, "
    "nullcontext, ExitStack methods, lru_cache, cached_property, contextmanager, tee, groupby). "
    "Non-trivial: an assignment mixing at least one async and one sync flavour in the same call, or using "
    "a partial / callable-object flavour. One evaluation = one flavoured run."
)
ASSUMPTIONS = [
    "the all-synchronous run of the library itself is the baseline (its agreement with the stdlib is C01/C02)",
    "list sources cannot carry a fault; the baseline then uses the one-shot sync iterator flavour",
]

SRC_FL = ["list", "ringlist", "seq", "iter", "agen", "aclass", "aplain", "tuple", "tuplesub", "aeager", "aeagerstop", "reiter", "areiter", "aproxy", "agencoro", "iter_noasync", "iter_hint0", "iter_awaitable", "aclass_awaitable"]
FN_FL = ["def", "async", "partial", "obj", "objaw", "falsyobj", "eqobj", "unhashobj", "aeqobj", "gencoro", "classaw", "defcoro", "defcoro", "eagercoro", "fwddef", "fwdcoro", "fwdcoro"]
ASYNC_SRC = {"agen", "aclass", "aplain", "aeager", "aeagerstop", "areiter", "aproxy", "agencoro", "aclass_awaitable"}
ALL = ITER_TOOLS + AGG_TOOLS


@st.composite
def cases(draw, name, tier):
    case = draw(base_case(name, max_len=5 if tier == "quick" else 7, max_src=3))
    case["close"] = False
    if name in ("sum", "accumulate", "reduce", "list", "min", "max", "sorted") and case["srcs"] \
            and draw(st.integers(0, 2)) == 0:
        # the baseline is the library itself, so inexact floats / str are fine here
        kind = draw(st.sampled_from(["floats", "strs"]))
        pool = ([["f", x] for x in (0.1, 0.2, 0.3, 0.7, 1e16, -1e16, 1.0, 1e-9)] if kind == "floats"
                else [["s", x] for x in ("", "a", "b", "ab")])
        case["srcs"][0]["items"] = draw(st.lists(st.sampled_from(pool), max_size=8))
        v = case["params"].setdefault("v", {})
        v.pop("default", None)
        v.pop("initial", None)
        v.pop("start", None)
        if name == "sum" and kind == "strs":
            v["start"] = ["s", "s"]
        if not v:
            case["params"].pop("v")
    nsrc = len(case["srcs"]) + (1 if TOOLS[name].outer else 0)
    nfn = len(case["fns"])
    assigns = []
    for _ in range(6):
        assigns.append({
            "src": [draw(st.sampled_from(SRC_FL if name != "iter_sentinel" else FN_FL + ["iterobj", "aiterobj"]))
                    for _ in range(nsrc)],
            "fn": [draw(st.sampled_from(FN_FL)) for _ in range(nfn)],
        })
    case["assigns"] = assigns
    case["fault_pick"] = draw(st.one_of(st.none(), st.tuples(st.integers(0, 40), st.sampled_from(EXC_NAMES))))
    case["stop_fault"] = draw(st.integers(0, 4)) == 0
    # a second planned fault on ANOTHER resource: which of the two is met first must not depend on the flavours
    case["fault_pick2"] = draw(st.one_of(st.none(), st.tuples(st.sampled_from([0, 0, 0, 1, 2, 5, 11, 23]),
                                                               st.sampled_from(EXC_NAMES))))
    return case


def apply_assign(case, assign):
    c = copy.deepcopy(case)
    c.pop("assigns", None)
    c.pop("fault_pick", None)
    c.pop("fault_pick2", None)
    c.pop("stop_fault", None)
    nsrc = len(c["srcs"])
    for i, s in enumerate(c["srcs"]):
        fl = assign["src"][i]
        if fl in ("list", "tuple", "tuplesub", "ringlist") and s.get("fault"):
            fl = "iter"
        s["fl"] = fl
    if TOOLS[c["tool"]].outer:
        fl = assign["src"][nsrc]
        if fl in ("list", "tuple", "tuplesub", "ringlist") and c["params"]["outer"].get("fault"):
            fl = "iter"
        c["params"]["outer"]["fl"] = fl
    for (role, spec), fl in zip(sorted(c["fns"].items()), assign["fn"]):
        spec["fl"] = fl
    return c


def baseline_assign(case):
    name = case["tool"]
    nsrc = len(case["srcs"]) + (1 if TOOLS[name].outer else 0)
    return {"src": ["list" if name != "iter_sentinel" else "def"] * nsrc, "fn": ["def"] * len(case["fns"])}


def is_async_shape(obj):
    return inspect.isawaitable(obj) or hasattr(obj, "__anext__") or hasattr(obj, "__aenter__")


def _calls(log):
    """how often the BODY of each callable ran (an awaitable that is returned but never awaited runs nothing)"""
    out = {}
    for e in log:
        if e[0] == "call":
            out[e[1]] = out.get(e[1], 0) + 1
    return out


def check_one(c, base_view, base_calls=None):
    tool = c["tool"]
    # type oracle: what does the library callable return before awaiting / iterating?
    if any(f.get("fl") == "fwdcoro" for f in c["fns"].values()):
        # make sure the library has met the synchronous sibling (same code object, plain results) before
        import asyncstdlib as a
        from ..doubles import forward_call

        run(Ctx("a"), a.list(a.map(forward_call(lambda x: x), [0])))
    b = build(c, "a")
    try:
        made = b.tool.make_a(b.S, b.F, b.P, b.V)
    except Exception as exc:  # valid arguments: creating the iterator / the awaitable does not fail
        raise Violation(f"C03/{tool}/creating-the-operation-raised", f"{exc!r}", case=c) from None
    ok = is_async_shape(made)
    if inspect.iscoroutine(made):
        made.close()
    if not ok:
        raise Violation(f"C03/{tool}/returns-plain-value", f"{type(made).__name__}", case=c)
    ba, outcome = run_async(c)
    expect_return(outcome, f"C03/{tool}", c)
    view = consumer_view(ba.ctx.log)
    d = first_diff(view, base_view)
    if d is not None:
        i, x, y = d
        fl = [s["fl"] for s in c["srcs"]] + [f["fl"] for f in c["fns"].values()]
        raise Violation(f"C03/{tool}/flavour-changes-outcome",
                        f"flavours={fl} event {i}: flavoured={x} all-sync={y}", case=c)
    if base_calls is not None and _calls(ba.ctx.log) != base_calls:
        fl = [s["fl"] for s in c["srcs"]] + [f["fl"] for f in c["fns"].values()]
        raise Violation(f"C03/{tool}/flavour-changes-how-often-a-callable-runs",
                        f"flavours={fl}: bodies ran {_calls(ba.ctx.log)} vs all-sync {base_calls}", case=c)


def check(case):
    if case.get("single"):
        base = apply_assign(case, baseline_assign(case))
        base_log = run_async(base)[0].ctx.log
        check_one(case, consumer_view(base_log), _calls(base_log))
        return None
    work = case
    if case.get("fault_pick") is not None:
        uses = uses_of(apply_assign(case, baseline_assign(case)))
        if uses:
            res, at = uses[case["fault_pick"][0] % len(uses)]
            exc1 = case["fault_pick"][1]
            if case.get("stop_fault") and not (res == "outer" or (res.startswith("s") and res[1:].isdigit())):
                # a CALLABLE fails with StopIteration: whatever the library makes of it (a coroutine frame turns it
                # into RuntimeError), it makes the same of it for every flavour of that callable
                exc1 = "StopIteration"
            is_src = lambda r: r == "outer" or (r.startswith("s") and r[1:].isdigit())  # noqa: E731
            # IndexError out of a __getitem__-only sequence is that flavour's way to END, not to fail
            seq_used = any("seq" in assign["src"] for assign in case["assigns"])
            if exc1 == "IndexError" and is_src(res) and seq_used:
                exc1 = "EOFError"
            work = with_fault(case, res, at, exc1)
            others = [u for u in uses if u[0] != res]
            if case.get("fault_pick2") is not None and others:
                res2, at2 = others[case["fault_pick2"][0] % len(others)]
                exc2 = case["fault_pick2"][1] if case["fault_pick2"][1] != case["fault_pick"][1] else "LookupError"
                if exc2 == "IndexError" and is_src(res2) and seq_used:
                    exc2 = "OSError" if exc1 != "OSError" else "LookupError"
                work = with_fault(work, res2, at2, exc2)
            work.pop("single", None)
            work["assigns"] = case["assigns"]
    base = apply_assign(work, baseline_assign(work))
    base_log = run_async(base)[0].ctx.log
    base_view, base_calls = consumer_view(base_log), _calls(base_log)
    nontrivial = []
    for k, assign in enumerate(work["assigns"]):
        c = apply_assign(work, assign)
        c["single"] = True
        check_one(c, base_view, base_calls)
        fls = assign["src"] + assign["fn"]
        has_async = any(f in ASYNC_SRC or f in ("async", "partial", "obj", "objaw") for f in fls)
        has_sync = any(f in ("list", "seq", "iter", "def", "tuple", "tuplesub") for f in fls)
        if (has_async and has_sync) or any(f in ("partial", "obj", "objaw") for f in fls):
            nontrivial.append("|".join(fls))
    return {"evaluations": len(work["assigns"]), "nontrivial": nontrivial,
            "labels": {"with-fault": 1 if work is not case else 0}}


# ---- fixed surface: every other public callable returns an async shape -------


def surface_cases():
    return [{"entry": name} for name in SURFACE]


def _surface():
    import asyncstdlib as a
    import functools

    async def agen():
        yield 1

    async def acoro(*args, **kwargs):
        return 1

    def plain(*args, **kwargs):
        return 1

    class SyncCM:
        def __enter__(self):
            return self

        def __exit__(self, *exc):
            return False

    class Obj:
        def __call__(self, *args):
            return acoro()

    @a.contextmanager
    async def cm():
        yield 1

    class Holder:
        @a.cached_property
        async def prop(self):
            return 1

        @a.lru_cache
        async def meth(self, x):
            return x

    table = {}
    for label, fn in (("def", plain), ("async", acoro), ("partial", functools.partial(acoro, 1)), ("obj", Obj())):
        table[f"sync({label})()"] = lambda fn=fn: a.sync(fn)()
        table[f"lru_cache({label})()"] = lambda fn=fn: a.lru_cache(fn)(1) if label != "def" else a.sync(fn)(1)
        table[f"ExitStack.callback/push({label}) then aclose"] = lambda fn=fn: _stack_with(a, fn).aclose()
        table[f"iter({label}, sentinel)"] = lambda fn=fn: a.iter(fn, 1)
        table[f"apply({label})"] = lambda fn=fn: a.apply(plain, acoro())
        table[f"groupby(key={label})"] = lambda fn=fn: a.groupby([1, 2], key=fn)
    for label, mk in (("list", lambda: [1, 2]), ("iter", lambda: iter([1, 2])), ("agen", agen)):
        table[f"any_iter({label})"] = lambda mk=mk: a.any_iter(mk())
        table[f"iter({label})"] = lambda mk=mk: a.iter(mk())
        table[f"scoped_iter({label})"] = lambda mk=mk: a.scoped_iter(mk())
        table[f"tee({label})"] = lambda mk=mk: a.tee(mk(), 2)
        table[f"tee({label})[0]"] = lambda mk=mk: a.tee(mk(), 2)[0]
        table[f"groupby({label})"] = lambda mk=mk: a.groupby(mk())
        table[f"anext(iter({label}))"] = lambda mk=mk: a.anext(a.iter(mk()))
        table[f"borrow(iter({label}))"] = lambda mk=mk: a.borrow(a.iter(mk()))
    table["await_each"] = lambda: a.await_each([])
    table["closing"] = lambda: a.closing(agen())
    table["nullcontext"] = lambda: a.nullcontext(1)
    table["ExitStack()"] = lambda: a.ExitStack()
    table["ExitStack.enter_context(async cm)"] = lambda: a.ExitStack().enter_context(cm())
    table["ExitStack.enter_context(sync cm)"] = lambda: a.ExitStack().enter_context(SyncCM())
    table["contextmanager()()"] = lambda: cm()
    table["contextmanager as decorator"] = lambda: cm()(acoro)()
    table["cached_property access"] = lambda: Holder().prop
    table["lru_cache method"] = lambda: Holder().meth(1)
    table["cache()"] = lambda: a.cache(acoro)(1)
    return table


def _stack_with(a, fn):
    stack = a.ExitStack()
    stack.callback(fn)
    stack.push(fn)
    return stack


SURFACE = None


def _ensure_surface():
    global SURFACE
    if SURFACE is None:
        SURFACE = _surface()
    return SURFACE


def check_surface(case):
    table = _ensure_surface()
    made = table[case["entry"]]()
    ok = is_async_shape(made)
    if inspect.iscoroutine(made):
        ctx = Ctx()
        run(ctx, made)
    if not ok:
        raise Violation(f"C03/surface/returns-plain-value", f"{case['entry']}: {type(made).__name__}")


# ---- ExitStack: sync and async exits / managers / callbacks are interchangeable ------------

SYNC_TO_ASYNC = {"scm": "acm", "push-sync": "push-async", "callback-sync": "callback-async"}


@st.composite
def stack_cases(draw):
    from . import c14

    # (a coroutine function cannot raise StopIteration - its frame turns it into RuntimeError, PEP 479 - so that
    # behaviour has no awaitable-returning equivalent)
    space = [e for e in c14.entry_space() if e[0] in SYNC_TO_ASYNC and e[1] != "raise-stop"]
    entries = draw(st.lists(st.sampled_from(space), min_size=1, max_size=4))
    flips = [draw(st.lists(st.booleans(), min_size=len(entries), max_size=len(entries))) for _ in range(4)]
    return {"entries": [list(e) for e in entries], "block": draw(st.sampled_from(["normal", "raises"])),
            "flips": flips}


def check_stack(case):
    from . import c14

    def outcome_of(entries):
        log = []
        result = expect_return(run(Ctx("a"), c14.run_stack({"entries": entries, "block": case["block"]}, log)),
                               "C03/exitstack")
        return result, log

    base = outcome_of(case["entries"])
    nontrivial = []
    for flip in case["flips"]:
        entries = [[SYNC_TO_ASYNC[k] if f else k, b] for (k, b), f in zip(case["entries"], flip)]
        got = outcome_of(entries)
        if got != base:
            raise Violation("C03/exitstack/flavour-changes-outcome",
                            f"entries={entries} block={case['block']}: {got} vs all-sync {base}")
        if any(flip) and not all(flip):
            nontrivial.append("".join("a" if f else "s" for f in flip))
    return {"evaluations": len(case["flips"]), "nontrivial": nontrivial, "labels": {}}


# ---- scoped_iter / borrow: the flavour of the underlying iterable must not matter ------------


def check_scoped(case):
    from . import c08

    for kind in ("list", "iter", "seq", "agen", "aclass"):
        try:
            c08.run_program(dict(case, kind=kind, raise_at=None, susp=0))
        except Violation as v:
            raise Violation(f"C03/scoped_iter/{v.bucket.split('/', 1)[1]}", f"underlying given as {kind}: {v.detail}",
                            case=dict(case, kind=kind)) from None
    return {"evaluations": 5, "nontrivial": ["list", "iter", "seq"] if len(case["items"]) >= 2 else [], "labels": {}}


def check_late_mutation(case):
    from ..native import run_late_mutation

    late, early = run_late_mutation(case)
    if late != early:
        raise Violation(f"C03/{case['tool'].split('-')[0]}/source-touched-before-the-first-request",
                        f"{case['tool']} over {case['kinds']} data={case['data']}: container changed after creating the "
                        f"iterator -> {late}; changed before -> {early}")
    return None


def shards(tier):
    out = [
        Shard(name, check, strategy=cases(name, tier), n=250, nontrivial=lambda c: False,
              thorough_mult=20)
        for name in ALL
    ]
    from . import c08

    from ..native import late_mutation_cases, TOOLS_N, AGGREGATIONS

    lazy_tools = [t for t in TOOLS_N if t not in AGGREGATIONS and t != "chain_from_iterable"]
    out.append(Shard("late-mutation", check_late_mutation, strategy=late_mutation_cases(lazy_tools), n=800,
                     nontrivial=lambda c: len(c["data"][0]) >= 1, thorough_mult=15))
    out.append(Shard("scoped_iter-flavours", check_scoped, strategy=c08.programs(tier), n=400,
                     nontrivial=lambda c: False, thorough_mult=20))
    out.append(Shard("exitstack-flavours", check_stack, strategy=stack_cases(), n=400,
                     nontrivial=lambda c: False, thorough_mult=20))
    out.append(Shard("surface", check_surface, cases=lambda: [{"entry": k} for k in _ensure_surface()],
                     nontrivial=lambda c: True, exhaustive=True))
    return out
