"""C06 - errors from sources/callables surface unchanged where the stdlib would raise."""
import copy

from hypothesis import strategies as st

from ..runner import Shard, Violation
from ..tools import ITER_TOOLS, AGG_TOOLS, TOOLS
from ..gen import base_case, features, EXC_NAMES
from ..core import expect_return, run_async, run_sync, trace_view, consumer_view, first_diff

PROPERTY = "C06"
LEVEL = "fault_enumeration"
RULE = (
    "For each Hypothesis-generated fault-free case (every iterator tool and aggregation, and groupby driven by "
    "the advance histories of C16 against itertools.groupby; sources as "
    "async generator / class-based async iterator / one-shot sync iterator / __getitem__ sequence; "
    "callables as def / async def / partial / callable object) the stdlib reference run yields the list "
    "of uses (every pull of every source including the end-of-data pull, every call of every callable). "
    "EVERY use (resource, ordinal) is then injected in turn with a planned exception (2 drawn types in "
    "quick, all 7 in thorough: Fault TypeError ValueError AttributeError KeyError RuntimeError LookupError). "
    "Oracle: with the same fault the asynchronous run delivers the same items, then raises that very "
    "planned object (identity), and - for iterator tools - its whole interleaved event log equals the "
    "reference's (so nothing is used after the fault and the fault is not deferred); aggregations: "
    "no pull/call event after the fault. close-faults-* shards: a source whose own aclose() raises a planned "
    "exception (any of the 7 types) when a tool is closed after j items or ends by itself - that very object "
    "must reach the consumer. tee-concurrent: 2-3 tasks advance tee children of one class-based source that tolerates "
    "overlapping pulls (with or without lock, 1-2 suspensions per pull) whose k-th pull raises (one of 6 types incl. a "
    "RuntimeError subclass): exactly one consumer receives that object. Non-trivial: a fault at a position >= 2 of the merged use list "
    "(an item was already delivered or another resource was used before). One evaluation = one injected run."
)
ASSUMPTIONS = [
    "StopIteration/StopAsyncIteration/GeneratorExit are not injected into generator-based tools (PEP 479/525 treat them differently in sync and async generators); callables of the coroutine-based aggregations DO raise StopAsyncIteration (StopIteration on the reference side)",
    "exceptions compared by identity with the planned object; __cause__/__context__ are not the object",
    "list sources cannot fail and take no fault",
]

ALL = ITER_TOOLS + AGG_TOOLS


@st.composite
def cases(draw, name, tier):
    case = draw(base_case(name, max_len=5 if tier == "quick" else 7, max_src=3))
    if name != "iter_sentinel":
        for s in case["srcs"]:
            s["fl"] = draw(st.sampled_from(["agen", "aclass", "iter", "seq", "aeager"]))
            s["cret"] = draw(st.sampled_from([None, None, True]))
    else:
        case["srcs"][0]["fl"] = draw(st.sampled_from(["def", "async", "partial", "obj"]))
    if name == "chain_from_iterable":
        case["params"]["outer"]["fl"] = draw(st.sampled_from(["agen", "aclass", "iter", "seq"]))
    for spec in case["fns"].values():
        spec["fl"] = draw(st.sampled_from(["def", "async", "partial", "obj", "objaw", "falsyobj", "gencoro", "unhashobj", "classaw", "eagercoro"]))
    if tier == "quick":
        case["exc"] = draw(st.lists(st.sampled_from(EXC_NAMES), min_size=2, max_size=2, unique=True))
    else:
        case["exc"] = draw(st.lists(st.sampled_from(EXC_NAMES), min_size=6, max_size=6, unique=True))
    if name in AGG_TOOLS and case["fns"]:
        # aggregations are coroutines: a user callable raising the iteration protocol's own exception
        # must come through like any other error (generator-based tools cannot: PEP 479/525)
        case["exc"] = case["exc"] + ["Stop"]
    case["close"] = False
    return case


def uses_of(case):
    """Ordered (resource, ordinal) list from the fault-free reference run."""
    log = run_sync(case).ctx.log
    counts = {}
    uses = []
    for e in log:
        if e[0] in ("pull", "call"):
            counts[e[1]] = counts.get(e[1], 0) + 1
            uses.append((e[1], counts[e[1]]))
    return uses


def with_fault(case, res, at, exc):
    c = copy.deepcopy(case)
    c.pop("exc", None)
    c["single"] = True
    fault = {"at": at, "exc": exc}
    if res == "outer":
        c["params"]["outer"]["fault"] = fault
    elif res.startswith("s") and res[1:].isdigit():
        c["srcs"][int(res[1:])]["fault"] = fault
    else:
        c["fns"][res]["fault"] = fault
    c["fault_at"] = [res, at, exc]
    return c


def check_one(c):
    tool = c["tool"]
    res = c["fault_at"][0]
    bs = run_sync(c)
    ba, outcome = run_async(c)
    expect_return(outcome, f"C06/{tool}", c)
    av, sv = consumer_view(ba.ctx.log), consumer_view(bs.ctx.log)
    d = first_diff(av, sv)
    if d is not None:
        i, x, y = d
        if y is not None and y[0] == "raise" and y[3] == res:
            if x is not None and x[0] == "raise":
                kind = "replaced-or-wrapped"
            else:
                kind = "swallowed-or-deferred"
        elif x is not None and x[0] == "raise" and x[3] == res:
            kind = "raised-where-stdlib-does-not"
        else:
            kind = "items-before-failure-differ"
        raise Violation(f"C06/{tool}/{kind}", f"fault={c['fault_at']} event {i}: async={x} stdlib={y}", case=c)
    if TOOLS[tool].kind == "iter":
        at, stt = trace_view(ba.ctx.log), trace_view(bs.ctx.log)
        d = first_diff(at, stt)
        if d is not None:
            i, x, y = d
            raise Violation(f"C06/{tool}/trace-differs-under-fault",
                            f"fault={c['fault_at']} event {i}: async={x} stdlib={y}", case=c)
        failed = sorted({e[1] for e in av if e[0] == "raise"})
        if failed:
            # "... and the source/callable is not used again afterwards": the failed iterator is asked once more
            # (library side only - what the stdlib counterparts do then differs from tool to tool)
            c2 = copy.deepcopy(c)
            c2["plan"] = list(c2.get("plan") or []) + [["again", o] for o in failed]
            b2, outcome2 = run_async(c2)
            expect_return(outcome2, f"C06/{tool}", c2)
            inside, used = False, []
            for e in b2.ctx.log:
                if e[0] == "again-begin":
                    inside = True
                elif e[0] == "again-end":
                    inside = False
                elif inside and e[0] in ("pull", "call", "item", "repull"):
                    used.append(e)
            if used:
                raise Violation(f"C06/{tool}/used-again-after-the-failure",
                                f"fault={c['fault_at']}: asking the failed iterator again did {used[:3]}", case=c)
    else:
        log = ba.ctx.log
        idx = next((i for i, e in enumerate(log) if e[0] in ("fault", "cfault")), None)
        if idx is not None:
            later = [e for e in log[idx + 1:] if e[0] in ("pull", "call", "item")]
            if later:
                raise Violation(f"C06/{tool}/used-after-fault", f"fault={c['fault_at']} later={later[:3]}", case=c)


def check(case):
    if case.get("single"):
        check_one(case)
        return None
    uses = uses_of(case)
    n = 0
    nontrivial = []
    if TOOLS[case["tool"]].kind == "agg":
        # a failure that needs no injection (an item that cannot be added / compared, raised by a C-level callable
        # no double can instrument): the source must not be used after it either
        bs = run_sync(case)
        sv = consumer_view(bs.ctx.log)
        if sv and sv[-1][0] == "raise" and sv[-1][3] is None:
            ba, outcome = run_async(case)
            expect_return(outcome, f"C06/{case['tool']}", case)
            pulls = lambda log: [e for e in trace_view(log) if e[0] in ("pull", "item", "end")]  # noqa: E731
            d = first_diff(pulls(ba.ctx.log), pulls(bs.ctx.log))
            if d is not None and consumer_view(ba.ctx.log) == sv:
                i, x, y = d
                raise Violation(f"C06/{case['tool']}/source-used-differently-around-a-failure",
                                f"event {i}: async={x} stdlib={y}")
            n += 1
    for pos, (res, at) in enumerate(uses, start=1):
        if res.startswith("s") and res[1:].isdigit() and case["srcs"][int(res[1:])]["fl"] == "list":
            continue
        is_source = res == "outer" or (res.startswith("s") and res[1:].isdigit())
        for exc in case["exc"]:
            if exc == "Stop" and is_source:
                continue  # for a source the protocol exception simply means "exhausted"
            check_one(with_fault(case, res, at, exc))
            n += 1
            if pos >= 2:
                nontrivial.append(f"{res}@{at}:{exc}")
    return {"evaluations": max(n, 1), "nontrivial": nontrivial,
            "labels": {"fault-runs": n, "fault-at-first-use": len(case["exc"]) if uses else 0}}


def classify(case):
    out = []
    fl = {s["fl"] for s in case["srcs"]}
    out += [f"src-{x}" for x in sorted(fl)]
    out += [f"fn-{spec['fl']}" for spec in case["fns"].values()]
    return out


# ---- groupby (not in the tool table: it is driven by histories, see C16) ---------------------


@st.composite
def groupby_cases(draw, tier, forced_key=False):
    from . import c16

    case = draw(c16.histories(tier))
    if forced_key:
        # a key function is there, it is one of the less common kinds of callable, and the groupby is advanced
        # again after its first advance (whatever that one ran into)
        if case["key"] is None:
            case["key"] = [["i", k] for k in draw(st.lists(st.integers(0, 2), min_size=2, max_size=4))]
        case["keyfl"] = draw(st.sampled_from(["eagercoro", "eagercoro", "defcoro", "obj"]))
        case["ops"] = [["gb"], ["gb"]] + case["ops"]
    case["exc"] = draw(st.lists(st.sampled_from(EXC_NAMES), min_size=2, max_size=2, unique=True)) \
        if tier == "quick" else draw(st.lists(st.sampled_from(EXC_NAMES), min_size=6, max_size=6, unique=True))
    return case


EXNAMES_ALL = EXC_NAMES


def check_groupby(case):
    from . import c16

    if case.get("fault"):
        c16.check(case)
        return None
    n = 0
    nontrivial = []
    resources = ["s0"] + (["key"] if case["key"] is not None else [])
    for res in resources:
        top = len(case["items"]) + (1 if res == "s0" else 0)
        for at in range(1, top + 1):
            for exc in case["exc"]:
                sub = {k: v for k, v in case.items() if k != "exc"}
                sub.update(fault=[res, at, exc], prop="C06/groupby")
                c16.check(sub)
                n += 1
                if at >= 2:
                    nontrivial.append(f"{res}@{at}:{exc}")
    return {"evaluations": max(n, 1), "nontrivial": nontrivial, "labels": {"fault-runs": n}}


# ---- errors raised by a source's own aclose() -------------------------------------------------


@st.composite
def close_fault_cases(draw, tier):
    name = draw(st.sampled_from([t for t in ALL if t not in ("tee", "iter_sentinel", "cycle")]))
    case = draw(base_case(name, max_len=4, max_src=3))
    for s_ in case["srcs"]:
        s_["fl"] = draw(st.sampled_from(["aclass", "aplain"]))
        s_["cfault"] = draw(st.sampled_from(EXC_NAMES))
    if name == "chain_from_iterable":
        case["params"]["outer"]["fl"] = "aclass"
    for spec in case["fns"].values():
        spec["fl"] = draw(st.sampled_from(["def", "async"]))
    total = sum(len(s_["items"]) for s_ in case["srcs"])
    case["take"] = draw(st.integers(0, total + 2))
    return case


def check_close_fault(case):
    """a planned exception raised by source.aclose() must reach the consumer (it is never swallowed)"""
    from ..core import build, planned_name
    from ..driver import run, loop_mode, close_orphans

    tool = case["tool"]
    b = build(case, "a")
    received = []

    async def scenario():
        t = b.tool
        if t.kind == "agg":
            try:
                await t.make_a(b.S, b.F, b.P, b.V)
            except BaseException as exc:  # noqa: B902
                received.append(exc)
            return
        out = t.make_a(b.S, b.F, b.P, b.V)
        for _ in range(case["take"]):
            try:
                await out.__anext__()
            except StopAsyncIteration:
                break
            except BaseException as exc:  # noqa: B902
                received.append(exc)
                break
        closer = getattr(out, "aclose", None)
        if closer is not None:
            try:
                await closer()
            except BaseException as exc:  # noqa: B902
                received.append(exc)

    with loop_mode(b.ctx, "hooks"):
        expect_return(run(b.ctx, scenario()), f"C06/{tool}")
        close_orphans(b.ctx)
    def chain_of(exc):
        seen = []
        while exc is not None and not any(exc is x for x in seen):
            seen.append(exc)
            exc = exc.__context__ or exc.__cause__
        return seen

    visible = [x for e in received for x in chain_of(e)]  # when several cleanups fail the later error carries the
    for src in b.srcs:                                    # earlier ones as its context (as nested finally blocks do)
        if getattr(src, "close_raised", False) and not any(e is src.close_fault for e in visible):
            raise Violation(f"C06/{tool}/error-from-source-aclose-swallowed",
                            f"{src.name}.aclose() raised {src.close_fault!r} but the consumer received "
                            f"{[repr(e)[:60] for e in received]} take={case['take']}")
    raised = sum(1 for src in b.srcs if getattr(src, "close_raised", False))
    return {"evaluations": 1, "nontrivial": ["x"] if raised else [], "labels": {"close-raised": raised}}


# ---- tee: a failing source under concurrent consumers ---------------------------------------------


class FaultError(RuntimeError):
    """a source's own failure that happens to derive from RuntimeError"""


_TEE_EXC = {"FaultError": FaultError, "RuntimeError": RuntimeError, "ValueError": ValueError, "KeyError": KeyError,
            "LookupError": LookupError, "TypeError": TypeError, "IndexError": IndexError, "OSError": OSError,
            "AssertionError": AssertionError, "AttributeError": AttributeError, "EOFError": EOFError}


@st.composite
def tee_concurrent_cases(draw, tier):
    lock = draw(st.booleans())
    return {"n": draw(st.integers(2, 3)), "length": draw(st.integers(1, 5)), "lock": lock,
            "susp": draw(st.integers(1, 2)), "fault_at": draw(st.integers(1, 6)),
            "exc": draw(st.sampled_from(sorted(_TEE_EXC))), "between": draw(st.booleans()),
            "choices": draw(st.lists(st.integers(0, 3), max_size=50))}


def check_tee_concurrent(case):
    """Several tasks advance tee children of one class-based source that tolerates overlapping pulls; its k-th
    pull fails.  Whatever else the children see, that very exception object reaches one of the consumers."""
    from ..driver import Ctx, Scheduler, Lock, loop_mode, close_orphans
    from ..values import Item
    from .. import env
    env.setup()
    import asyncstdlib as a

    ctx = Ctx("a")
    planned = _TEE_EXC[case["exc"]]("planned source failure")
    state = {"pulls": 0, "raised": False, "idx": 0}

    class Source:
        def __aiter__(self):
            return self

        async def __anext__(self):
            state["pulls"] += 1
            mine = state["pulls"]
            for _ in range(case["susp"]):
                await ctx.suspend(("source", mine))
            if mine == case["fault_at"]:
                state["raised"] = True
                raise planned
            if state["idx"] >= case["length"]:
                raise StopAsyncIteration
            state["idx"] += 1
            return Item(0, state["idx"] - 1)

    lock = Lock(ctx, "lock") if case["lock"] else None
    children = list(a.tee(Source(), case["n"], lock=lock) if lock is not None else a.tee(Source(), case["n"]))
    received = []
    others = []

    async def consumer(i):
        while True:
            try:
                item = await children[i].__anext__()
            except StopAsyncIteration:
                return
            except BaseException as exc:  # noqa: B902
                (received if exc is planned else others).append((i, exc))
                return
            del item
            if case["between"]:
                await ctx.suspend(("between", i))

    sched = Scheduler(ctx, [(f"c{i}", consumer(i)) for i in range(case["n"])], case["choices"], max_steps=4000)
    with loop_mode(ctx, "hooks"):
        sched.run()
        close_orphans(ctx)
    if sched.verdict is not None:
        raise Violation(f"C06/tee-concurrent/{sched.verdict}", f"{case}")
    if state["raised"] and not received:
        raise Violation("C06/tee-concurrent/swallowed-or-replaced",
                        f"the source raised {planned!r} at pull {case['fault_at']} but no consumer received that "
                        f"object; other exceptions seen: {[(i, repr(e)) for i, e in others]} {case}")
    if len(received) > 1:
        raise Violation("C06/tee-concurrent/delivered-twice", f"{[(i) for i, _ in received]} {case}")
    return {"evaluations": 1, "nontrivial": ["x"] if state["raised"] and case["fault_at"] >= 2 else [],
            "labels": {"fault-raised": int(state["raised"]), "with-lock": int(case["lock"])}}


def shards(tier):
    return [
        Shard("tee-concurrent", check_tee_concurrent, strategy=tee_concurrent_cases(tier), n=600,
              nontrivial=lambda c: False, thorough_mult=20),
    ] + [
        Shard(f"close-faults-{i}", check_close_fault, strategy=close_fault_cases(tier), n=700,
              nontrivial=lambda c: False, thorough_mult=20) for i in range(4)
    ] + [
        Shard("groupby-callables", check_groupby, strategy=groupby_cases(tier, True), n=150, nontrivial=lambda c: False,
              thorough_mult=25),
        Shard("groupby", check_groupby, strategy=groupby_cases(tier), n=300, nontrivial=lambda c: False,
              thorough_mult=20),
    ] + [
        Shard(name, check, strategy=cases(name, tier), n=150, nontrivial=lambda c: False,
              classify=classify, thorough_mult=20)
        for name in ALL
    ]
