"""C17 - event-loop agnostic: the library suspends only where user awaitables suspend."""
import json
import os
import subprocess
import sys

from hypothesis import strategies as st

from ..runner import Shard, Violation
from ..tools import ITER_TOOLS, AGG_TOOLS, TOOLS
from ..gen import base_case
from ..core import build, expect_return, run_sync, consumer_view
from ..driver import Ctx, run, loop_mode, close_orphans, Cancel
from ..values import GrumpyError
from .. import env
from . import c18

PROPERTY = "C17"
LEVEL = "exploration"
RULE = (
    "(a) Token protocol: every operation (each iterator tool and aggregation with suspending sources - async "
    "generator, class, class whose __anext__ returns a plain awaitable - and suspending async callables; tee with "
    "a lock; lru_cache; cached_property with a lock type; ExitStack; scoped_iter blocks) is driven by hand; every "
    "awaitable of a double yields a unique token. Every object reaching the driver must be such a token, in "
    "issue order, each yielded once; the double must get back exactly the reply sent for ITS token; the "
    "operation must complete (no exception that no double raised). Then EVERY suspension i is re-run with an "
    "exception thrown at it: the awaitable suspended there must receive that very object. (b) With only "
    "synchronous arguments (lists / iterators / plain functions) every tool, aggregation and adapter completes "
    "with zero suspensions - also for long inputs (40-90 items, runs of 70-100 equal keys in groupby), so that "
    "no size threshold hides a suspension (sync-huge-*: 65539 / 100003 items under a running asyncio loop). Every third "
    "case of (a) and (b) is driven by hand WHILE a real asyncio loop is running in the thread (library code probing for a "
    "running loop finds one; a Future or shielded task it awaits reaches the hand driver as a foreign suspension), and the "
    "exception thrown at every other position is asyncio.CancelledError itself. (c) While all this runs, and in a fresh subprocess where asyncio's loop accessors, "
    "Lock, sleep, Future, tasks ... are replaced BEFORE asyncstdlib is imported, a generated battery of "
    "operations must complete with zero recorded accesses. Non-trivial: a run with >= 2 suspensions from >= 2 "
    "different doubles, or an all-sync run of a tool with a callable. One evaluation = one driven run."
)
ASSUMPTIONS = [
    "'every event loop' is approximated by a hand-driven loop with send/throw and by the no-asyncio subprocess; trio/asyncio themselves are not run",
    "asyncio.iscoroutinefunction is the only asyncio name the library may use (function detection)",
]

ALL = [t for t in ITER_TOOLS if t != "tee"] + AGG_TOOLS

from ..traps import install_traps, TRAPPED  # noqa: E402,F401


def protocol_check(ctx, tool, case, thrown=()):
    errs = ctx.protocol_errors(thrown_ok=thrown)
    if errs:
        raise Violation(f"C17/{tool}/{errs[0][0]}", f"{errs[:2]}", case=case)


def under_asyncio(fn):
    """call ``fn()`` while a REAL asyncio event loop is running in this thread: the hand-driven loop inside is
    then 'some other event loop' that happens to be started from an asyncio program.  Library code that looks
    for a running asyncio loop finds one; whatever it then awaits (a Future, a shielded task) reaches the
    hand driver as a foreign suspension."""
    import asyncio

    async def main():
        return fn()

    return asyncio.run(main())


def with_real_loop(strategy):
    return st.tuples(strategy, st.sampled_from([False, False, True])).map(lambda t: dict(t[0], real_loop=t[1]))


def check_tool(case):
    tool = case["tool"]
    record = []
    if case.get("real_loop"):
        if case.get("cancel_at"):
            return under_asyncio(lambda: _tool_run(case, case["cancel_at"], record))
        n, sources = under_asyncio(lambda: _tool_run(case, None, record))
        for i in range(1, n + 1):
            under_asyncio(lambda i=i: _tool_run(case, i, record))
        return {"evaluations": n + 1, "nontrivial": ["run"] + [f"throw@{i}" for i in range(1, n + 1)]
                if (n >= 2 and sources >= 2) else [], "labels": {"driven-runs": n + 1, "under-asyncio-loop": n + 1}}
    undo = install_traps(record)
    try:
        if case.get("cancel_at"):
            return _tool_run(case, case["cancel_at"], record)
        n, sources = _tool_run(case, None, record)
        for i in range(1, n + 1):
            _tool_run(case, i, record)
    finally:
        undo()
    return {"evaluations": n + 1, "nontrivial": ["run"] + [f"throw@{i}" for i in range(1, n + 1)]
            if (n >= 2 and sources >= 2) else [], "labels": {"driven-runs": n + 1}}


def _tool_run(case, cancel_at, record):
    tool = case["tool"]
    b = build(case, "a")
    # what a loop throws: a private BaseException, or asyncio's own CancelledError (every other position)
    cancel = None
    if cancel_at:
        import asyncio
        cancel = (asyncio.CancelledError if cancel_at % 2 == 0 else Cancel)("thrown-by-loop")
    vcase = dict(case, cancel_at=cancel_at)
    with loop_mode(b.ctx, "hooks"):
        outcome = run(b.ctx, c18.tool_task(b, case), cancel_at, cancel)
        n = b.ctx.last_suspensions
        if record:
            raise Violation(f"C17/{tool}/asyncio-loop-access", f"{record[:3]}", case=vcase)
        if cancel_at is None:
            if outcome[0] != "return":
                # data-dependent errors (empty input, unorderable items ...) are fine iff the stdlib raises too
                ref = consumer_view(run_sync(dict(case, plan=case.get("plan") or [])).ctx.log)
                ref_exc = ref[-1][2] if ref and ref[-1][0] == "raise" else None
                if outcome[0] != "raise" or type(outcome[1]).__name__ != ref_exc:
                    raise Violation(f"C17/{tool}/operation-failed-though-no-double-failed",
                                    f"{outcome!r} stdlib={ref_exc}", case=vcase)
            protocol_check(b.ctx, tool, vcase)
            lazy = [f.name for f in b.fns.values() if f.invoked != f.calls]
            if lazy and outcome[0] == "return":
                raise Violation(f"C17/{tool}/awaitable-returned-by-a-callable-was-never-awaited",
                                f"{[(f.name, f.invoked, f.calls) for f in b.fns.values()]}", case=vcase)
            if any(not s.seen for s in b.ctx.issued):
                raise Violation(f"C17/{tool}/token-never-reached-the-loop", "", case=vcase)
        elif b.ctx.cancel_delivered:
            target = b.ctx.throw_target
            if target is None or target.thrown is not cancel:
                raise Violation(f"C17/{tool}/thrown-exception-did-not-reach-the-suspended-awaitable",
                                f"cancel_at={cancel_at} target={getattr(target, 'origin', None)} "
                                f"got={getattr(target, 'thrown', None)!r}", case=vcase)
            protocol_check(b.ctx, tool, vcase, thrown=(cancel,))
        close_orphans(b.ctx)
    origins = {s.origin[0] if isinstance(s.origin, tuple) else s.origin for s in b.ctx.issued}
    return n, len(origins)


def check_sync(case):
    """(b): all-synchronous arguments => zero suspensions"""
    tool = case["tool"]
    record = []

    def body():
        b = build(case, "a")
        with loop_mode(b.ctx, "hooks"):
            outcome = run(b.ctx, c18.tool_task(b, case))
            close_orphans(b.ctx)
        return b, outcome

    if case.get("real_loop"):
        b, outcome = under_asyncio(body)
    else:
        undo = install_traps(record)
        try:
            b, outcome = body()
        finally:
            undo()
    if record:
        raise Violation(f"C17/{tool}/asyncio-loop-access", f"{record[:3]}")
    if b.ctx.suspensions or b.ctx.foreign:
        raise Violation(f"C17/{tool}/suspended-with-only-synchronous-arguments",
                        f"suspensions={b.ctx.suspensions} foreign={[repr(x)[:60] for x in b.ctx.foreign[:2]]}")
    if outcome[0] == "raise":
        ref = consumer_view(run_sync(dict(case, plan=case.get("plan") or [])).ctx.log)
        ref_exc = ref[-1][2] if ref and ref[-1][0] == "raise" else None
        if type(outcome[1]).__name__ != ref_exc:
            raise Violation(f"C17/{tool}/operation-failed-though-no-double-failed",
                            f"{outcome!r} stdlib={ref_exc}")


@st.composite
def sync_cases(draw, name, long=False):
    case = draw(base_case(name, max_len=4, max_src=3) if not long else
                base_case(name, max_len=90, min_len=40, max_src=2))
    if name != "iter_sentinel":
        for s in case["srcs"]:
            s["fl"] = draw(st.sampled_from(["list", "iter", "seq"]))
    if name == "chain_from_iterable":
        case["params"]["outer"]["fl"] = draw(st.sampled_from(["list", "iter"]))
    return case


@st.composite
def huge_cases(draw, name, optional=None):
    """inputs beyond any plausible 'this is big, hand it to a worker' threshold (2**16, 10**5)"""
    n_items = draw(st.sampled_from([2 ** 16 + 3, 100_003]))
    tool = TOOLS[name]
    items = [["i", (i * 7919) % 1013] for i in range(n_items)]
    if name in ("dict",):
        items = [["t", [["i", i % 1013], ["i", i]]] for i in range(n_items)]
    if name == "starmap":
        items = [["t", [["i", i % 1013]]] for i in range(n_items)]
    srcs = [{"items": items, "fl": draw(st.sampled_from(["list", "iter"])), "susp": 0, "csusp": False, "fault": None}]
    for _ in range(max(tool.nsrc[0], 1) - 1):
        srcs.append(dict(srcs[0]))
    fns = {}
    for role, _kind in tool.roles:
        fns[role] = {"kind": "ident" if role != "pred" else "table", "table": [["b", True]], "fl": "def", "susp": 0,
                     "fault": None}
    if tool.optional_roles and (draw(st.booleans()) if optional is None else optional):
        role = tool.optional_roles[0][0]
        fns[role] = {"kind": "ident" if role == "key" else "table", "table": [["b", True]], "fl": "def", "susp": 0,
                     "fault": None}
    params = {}
    if name in ("nlargest", "nsmallest"):
        params["n"] = draw(st.sampled_from([3, 70_000]))
    elif name == "sorted":
        params["reverse"] = draw(st.booleans())
    elif name == "zip":
        params["strict"] = False
    elif name == "enumerate":
        params["start"] = 0
    elif name == "batched":
        params.update(n=draw(st.sampled_from([7, 66_000])), strict=False)
    elif name == "islice":
        params["args"] = [66_000, None]
    elif name == "merge":
        params["reverse"] = False
        srcs[0]["items"] = sorted(items, key=lambda d: d[1])
    elif name == "chain_from_iterable":
        params["outer"] = {"fl": "list", "susp": 0, "csusp": False, "fault": None}
    plan = [0] * 3 if tool.kind == "iter" else []
    if tool.kind == "iter" and name in ("islice", "batched", "merge", "dropwhile", "filter", "filterfalse"):
        plan = [0] * 3
    return {"tool": name, "profile": "num", "srcs": srcs, "fns": fns, "params": params, "plan": plan, "close": True}


HUGE = ["sorted", "min", "max", "sum", "list", "tuple", "set", "dict", "nlargest", "nsmallest", "reduce", "all", "any",
        "islice", "batched", "merge", "filter", "zip", "map", "enumerate", "accumulate", "chain"]


# ---- special operations reuse the C18 scenarios ---------------------------------------


def check_special(case, runner, kind):
    record = []
    if case.get("real_loop"):
        Ctx.track = True
        try:
            return under_asyncio(lambda: _special(case, runner, kind, record))
        finally:
            Ctx.track = False
            Ctx.created.clear()
    undo = install_traps(record)
    Ctx.track = True
    try:
        return _special(case, runner, kind, record)
    except Violation:
        raise
    except Exception:
        if record:
            raise Violation(f"C17/{kind}/asyncio-loop-access", f"{record[:3]}") from None
        raise
    finally:
        Ctx.track = False
        Ctx.created.clear()
        undo()


def _special(case, runner, kind, record):
    if True:
        runs = 0
        Ctx.created.clear()
        n = runner(case, None)
        runs += 1
        ctx = Ctx.created[0]
        if record:
            raise Violation(f"C17/{kind}/asyncio-loop-access", f"{record[:3]}")
        protocol_check(ctx, kind, case)
        origins = {s.origin[0] if isinstance(s.origin, tuple) else s.origin for s in ctx.issued}
        for i in range(1, n + 1):
            Ctx.created.clear()
            runner(case, i)
            runs += 1
            ctx = Ctx.created[0]
            target = ctx.throw_target
            if target is not None:
                thrown = target.thrown
                if thrown is None or not isinstance(thrown, Cancel):
                    raise Violation(f"C17/{kind}/thrown-exception-did-not-reach-the-suspended-awaitable",
                                    f"cancel_at={i} target={target.origin}", case=dict(case, cancel_at=i))
                protocol_check(ctx, kind, dict(case, cancel_at=i), thrown=(thrown,))
            if record:
                raise Violation(f"C17/{kind}/asyncio-loop-access", f"{record[:3]}")
    return {"evaluations": runs, "nontrivial": [f"run{j}" for j in range(runs)] if n >= 2 and len(origins) >= 2 else [],
            "labels": {"driven-runs": runs}}


# ---- adapters: all-sync zero suspension ------------------------------------------------


def adapter_cases():
    return [{"adapter": name} for name in ADAPTERS]


def _adapters():
    import asyncstdlib as a

    async def consume(it):
        return [x async for x in it]

    async def stack():
        async with a.ExitStack() as s:
            s.callback(lambda: None)
            s.push(lambda *exc: False)

            class CM:
                def __enter__(self):
                    return 1

                def __exit__(self, *exc):
                    return False

            await s.enter_context(CM())
            await s.enter_context(a.nullcontext(1))

    async def scoped():
        async with a.scoped_iter([1, 2, 3]) as it:
            await a.anext(it)
            return await a.list(a.islice(a.borrow(it), 1))

    async def cached():
        @a.lru_cache(maxsize=2)
        async def f(x):
            return x

        return [await f(1), await f(1), await f(2), await f(3)]

    async def prop():
        class H:
            @a.cached_property
            async def p(self):
                return 1

        h = H()
        return [await h.p, await h.p]

    async def cm():
        @a.contextmanager
        async def m():
            yield 1

        async with m() as v:
            pass

        @m()
        async def g():
            return 2

        return v, await g()

    async def groupby():
        return [(k, await a.list(g)) async for k, g in a.groupby([1, 1, 2], key=lambda x: x)]

    async def groupby_long():
        out = []
        async for key, group in a.groupby([i // 70 for i in range(300)]):
            out.append((key, [x async for _, x in a.zip(range(3), group)]))  # most of each run is skipped
        gb = a.groupby(list(range(100)), key=lambda x: 0)
        async for key, group in gb:
            pass
        return out

    async def long_chain():
        return [await a.list(a.islice(a.cycle(range(50)), 400)), await a.nlargest(range(500), 40),
                await a.list(a.batched(range(333), 64)), await a.list(a.merge(*[range(60)] * 7)),
                await a.sorted(range(200), key=lambda x: -x), await a.reduce(lambda x, y: y, range(300))]

    async def tee():
        async with a.tee([1, 2], 2) as (x, y):
            return await a.list(a.zip(x, y))

    return {
        "any_iter(list)": lambda: consume(a.any_iter([1, 2])),
        "any_iter(iter)": lambda: consume(a.any_iter(iter([1, 2]))),
        "await_each(empty)": lambda: consume(a.await_each([])),
        "apply(no awaitables)": lambda: a.apply(lambda: 1),
        "sync(def)": lambda: a.sync(lambda x: x)(1),
        "closing": lambda: _with(a.closing(a.iter([1]))),
        "nullcontext": lambda: _with(a.nullcontext(1)),
        "ExitStack": stack, "scoped_iter/borrow": scoped, "lru_cache": cached, "cached_property": prop,
        "contextmanager": cm, "groupby": groupby, "tee": tee, "groupby-long-runs": groupby_long,
        "long-inputs": long_chain,
    }


async def _with(cm):
    async with cm as v:
        return v


ADAPTERS = None


def check_adapter(case):
    global ADAPTERS
    if ADAPTERS is None:
        ADAPTERS = _adapters()
    record = []
    undo = install_traps(record)
    try:
        ctx = Ctx("a")
        with loop_mode(ctx, "hooks"):
            outcome = run(ctx, ADAPTERS[case["adapter"]]())
            close_orphans(ctx)
    finally:
        undo()
    if record:
        raise Violation("C17/adapter/asyncio-loop-access", f"{case['adapter']}: {record[:3]}")
    expect_return(outcome, f"C17/{case['adapter']}")
    if ctx.suspensions:
        raise Violation("C17/adapter/suspended-with-only-synchronous-arguments", case["adapter"])


# ---- (c) fresh subprocess without a usable asyncio loop ----------------------------------

BATTERY = r'''
import json, sys, os
sys.path.insert(0, os.environ["VF_VERIF_DIR"])
record = []
from vf.traps import install_traps
install_traps(record)                       # BEFORE asyncstdlib is imported
assert "asyncstdlib" not in sys.modules
from vf import env
env.setup()
import asyncstdlib
at_import = list(record)
from vf.core import build, run_sync, consumer_view
from vf.driver import run, loop_mode, close_orphans
from vf.props import c18
cases = json.load(sys.stdin)
done = 0
failed = []
for case in cases:
    b = build(case, "a")
    with loop_mode(b.ctx, "hooks"):
        outcome = run(b.ctx, c18.tool_task(b, case))
        close_orphans(b.ctx)
    if outcome[0] != "return":
        # data-dependent errors (empty input, unorderable or grumpy items ...) are fine iff the stdlib raises too
        ref = consumer_view(run_sync(dict(case, plan=case.get("plan") or [])).ctx.log)
        ref_exc = ref[-1][2] if ref and ref[-1][0] == "raise" else None
        if outcome[0] != "raise" or type(outcome[1]).__name__ != ref_exc:
            failed.append([case["tool"], repr(outcome)[:200], ref_exc])
    done += 1
print(json.dumps({"done": done, "at_import": at_import, "accessed": record, "failed": failed,
                  "module": asyncstdlib.__file__}))
'''


def check_battery(case):
    envv = dict(os.environ, VF_VERIF_DIR=env.VERIF_DIR, VERIF_REPO=env.REPO, PYTHONHASHSEED="0")
    proc = subprocess.run([sys.executable, "-c", BATTERY], input=json.dumps(case["cases"]), env=envv,
                          capture_output=True, text=True, timeout=300)
    if proc.returncode != 0:
        if "used by the library under test" in proc.stderr:
            raise Violation("C17/subprocess/asyncio-loop-access-at-import-or-use", proc.stderr[-400:])
        raise RuntimeError(f"battery subprocess failed: {proc.stderr[-800:]}")
    out = json.loads(proc.stdout.strip().splitlines()[-1])
    if out["at_import"] or out["accessed"]:
        raise Violation("C17/subprocess/asyncio-loop-access-at-import-or-use", f"{out['at_import']} {out['accessed'][:3]}")
    bad = out["failed"]
    if bad:
        raise Violation("C17/subprocess/operation-failed-without-asyncio-loop", f"{bad[:2]}")
    return {"evaluations": out["done"], "nontrivial": [f"op{i}" for i in range(out["done"])],
            "labels": {"subprocess-operations": out["done"]}}


# ---- two tasks: one is suspended inside a tee child while the other closes it ---------------


@st.composite
def tee_close_cases(draw):
    return {"n": draw(st.integers(1, 3)), "length": draw(st.integers(1, 3)), "susp": draw(st.integers(1, 2)),
            "target": draw(st.sampled_from(["child", "handle"])), "lock": draw(st.booleans()),
            "choices": draw(st.lists(st.integers(0, 2), max_size=20))}


def check_tee_close(case):
    import asyncstdlib as a
    from ..driver import Scheduler, Lock
    from .c09 import LazySource

    record = []
    undo = install_traps(record)
    try:
        ctx = Ctx("a")
        src = LazySource(ctx, case["length"], case["susp"])
        lock = Lock(ctx, "lock") if case["lock"] else None
        handle = a.tee(src, case["n"], lock=lock) if lock else a.tee(src, case["n"])
        children = list(handle)
        errors = []

        async def reader():
            try:
                async for _ in children[0]:
                    pass
            except RuntimeError as exc:
                errors.append(repr(exc))

        async def closer():
            await ctx.suspend(("closer", 0))
            try:
                await (children[0].aclose() if case["target"] == "child" else handle.aclose())
            except RuntimeError as exc:
                errors.append(repr(exc))  # "already running": refusing at once is fine

        sched = Scheduler(ctx, [("reader", reader()), ("closer", closer())], case["choices"], max_steps=500)
        sched.run()
    finally:
        undo()
    if record:
        raise Violation("C17/tee-concurrent-close/asyncio-loop-access", f"{record[:3]}")
    if ctx.foreign:
        raise Violation("C17/tee-concurrent-close/foreign-suspension",
                        f"{[repr(x)[:60] for x in ctx.foreign[:3]]} config={case}")
    if sched.verdict:
        raise Violation(f"C17/tee-concurrent-close/{sched.verdict}", f"config={case}")
    errs = ctx.protocol_errors()
    if errs:
        raise Violation(f"C17/tee-concurrent-close/{errs[0][0]}", f"{errs[:2]}")


@st.composite
def tee_nolock_cases(draw):
    return {"n": draw(st.integers(2, 3)), "length": draw(st.integers(1, 4)), "susp": draw(st.integers(1, 2)),
            "drop": draw(st.booleans()), "csusp": draw(st.booleans()),
            "choices": draw(st.lists(st.integers(0, 2), max_size=30))}


def check_tee_nolock(case):
    """tee WITHOUT a lock over a class-based source, driven by hand while a real asyncio loop is running: overlapping
    fetches of the children (the data may then be whatever it is - C09 requires a lock for that) and a never-advanced
    child that is simply dropped.  Every suspension must still belong to the source."""
    import gc
    import asyncstdlib as a
    from ..driver import Scheduler
    from .c09 import LazySource

    def body():
        ctx = Ctx("a")
        src = LazySource(ctx, case["length"], case["susp"])
        if case["csusp"]:
            plain_close = src.aclose

            async def suspending_close():
                await ctx.suspend(("source", "close"))
                await plain_close()

            src.aclose = suspending_close
        children = list(a.tee(src, case["n"]))
        dropped = children.pop() if case["drop"] else None

        async def reader(i):
            try:
                async for _ in children[i]:
                    pass
            except RuntimeError:
                pass
            await children[i].aclose()

        sched = Scheduler(ctx, [(f"r{i}", reader(i)) for i in range(len(children))], case["choices"], max_steps=800)
        sched.run()
        del dropped
        gc.collect()
        return ctx, sched

    ctx, sched = under_asyncio(body)
    if ctx.foreign:
        raise Violation("C17/tee-nolock/foreign-suspension",
                        f"{[repr(x)[:60] for x in ctx.foreign[:3]]} config={case}")
    if sched.verdict:
        raise Violation(f"C17/tee-nolock/{sched.verdict}", f"config={case}")
    errs = ctx.protocol_errors()
    unseen = [s_.origin for s_ in ctx.issued if not s_.seen]
    if errs or unseen:
        raise Violation("C17/tee-nolock/suspension-not-driven-by-the-loop", f"{errs[:2]} unseen={unseen[:2]} config={case}")


@st.composite
def groupby_conc_cases(draw):
    return {"runs": draw(st.lists(st.integers(1, 3), min_size=1, max_size=4)), "susp": draw(st.integers(1, 2)),
            "take": draw(st.integers(0, 3)), "advances": draw(st.integers(1, 3)),
            "choices": draw(st.lists(st.integers(0, 2), max_size=30))}


def check_groupby_concurrent(case):
    """one task reads a group while another advances the groupby (the documentation calls that unsafe for the
    DATA; whatever it does, every suspension must still belong to a user awaitable)"""
    import asyncstdlib as a
    from ..driver import Scheduler

    record = []
    undo = install_traps(record)
    try:
        ctx = Ctx("a")
        keys = [k for k, n in enumerate(case["runs"]) for _ in range(n)]

        class Source:
            def __init__(self):
                self.i = 0

            def __aiter__(self):
                return self

            async def __anext__(self):
                for _ in range(case["susp"]):
                    await ctx.suspend(("fetch", self.i))
                if self.i >= len(keys):
                    raise StopAsyncIteration
                self.i += 1
                return keys[self.i - 1]

        gb = a.groupby(Source())
        groups = []

        async def reader():
            try:
                _, group = await gb.__anext__()
            except StopAsyncIteration:
                return
            groups.append(group)
            for _ in range(case["take"]):
                try:
                    await group.__anext__()
                except (StopAsyncIteration, RuntimeError):
                    return

        async def advancer():
            await ctx.suspend(("advancer", 0))
            for _ in range(case["advances"]):
                try:
                    await gb.__anext__()
                except (StopAsyncIteration, RuntimeError):
                    return

        sched = Scheduler(ctx, [("reader", reader()), ("advancer", advancer())], case["choices"], max_steps=800)
        sched.run()
    finally:
        undo()
    if record:
        raise Violation("C17/groupby-concurrent/asyncio-loop-access", f"{record[:3]}")
    if ctx.foreign:
        raise Violation("C17/groupby-concurrent/foreign-suspension",
                        f"{[repr(x)[:60] for x in ctx.foreign[:3]]} config={case}")
    if sched.verdict:
        raise Violation(f"C17/groupby-concurrent/{sched.verdict}", f"config={case}")
    errs = ctx.protocol_errors()
    if errs:
        raise Violation(f"C17/groupby-concurrent/{errs[0][0]}", f"{errs[:2]}")


@st.composite
def loop_switch_cases(draw, tier):
    from . import c10

    case = draw(c10.histories(draw(st.sampled_from(["function", "method", "staticmethod"])), tier))
    ops = case["ops"]
    for _ in range(draw(st.integers(1, 4))):
        ops.insert(draw(st.integers(1, len(ops))), ["switch-loop", 0])
    case["loops"] = draw(st.lists(st.sampled_from(["none", "asyncio", "asyncio", "thread-asyncio"]), min_size=2, max_size=5))
    return case


def check_loop_switch(case):
    """a C10 history of ONE cached function whose segments run under different event loops (no asyncio loop at all,
    a fresh ``asyncio.run``, an asyncio loop in another thread): the cache is loop-agnostic state - hits, misses,
    contents and results are those of functools over the whole history"""
    import asyncio
    import threading
    from . import c10

    def drive(coro):
        loops = list(case["loops"])
        k = 0

        def segment():
            # steps the history until it asks for another loop (or ends)
            try:
                token = coro.send(None)
            except StopIteration as stop:
                return ("return", stop.value)
            except BaseException as exc:  # noqa: B902
                return ("raise", exc)
            if not isinstance(token, c10.LoopSwitch):
                coro.close()
                return ("raise", RuntimeError(f"the history suspended on {token!r}"))
            return None

        while True:
            kind = loops[k % len(loops)]
            k += 1
            if kind == "none":
                done = segment()
            elif kind == "asyncio":
                done = under_asyncio(segment)
            else:
                box = []
                t = threading.Thread(target=lambda: box.append(under_asyncio(segment)))
                t.start()
                t.join()
                done = box[0]
            if done is not None:
                return done

    try:
        ret = c10.check(case, drive=drive)
    except Violation as v:
        raise Violation("C17/lru_cache-across-loops/" + v.bucket.split("/", 1)[-1], f"loops={case['loops']} {v.detail}") from None
    return dict(ret, nontrivial=[])  # (counted by the shard's own rule: segments under >= 2 kinds of loop)


@st.composite
def batteries(draw, tier):
    names = draw(st.lists(st.sampled_from(ALL), min_size=12, max_size=12))
    return {"cases": [draw(c18.tool_cases(n, tier, cfaults=False)) for n in names]}


def check_cm_program(case):
    """the generator programs of C13 with suspensions inside the generator: here only the token protocol counts"""
    from . import c13

    try:
        c13.check(case)
    except Violation as v:
        if "not-driven-by-the-loop" in v.bucket:
            raise Violation("C17/contextmanager/generator-suspension-not-driven-by-the-loop", v.detail) from None
    return None


def suppress_cases():
    out = []
    for kind in ("push-async", "push-sync", "acm", "contextmanager"):
        for exc in ("asyncio.CancelledError", "Cancel", "KeyboardInterrupt", "ValueError"):
            for depth in (1, 2):
                out.append({"kind": kind, "exc": exc, "depth": depth})
    return out


def check_suppressed_cancellation(case):
    """an exit (of an ExitStack, of a generator-based manager) swallows what leaves the block - asyncio's own
    CancelledError included.  Whether that is wise is the user's business; the library hands the exception to the exit
    and takes its answer, and that is all: it does not consult or adjust any event loop's bookkeeping about it."""
    import asyncio
    import asyncstdlib as a

    record = []
    exc = {"asyncio.CancelledError": asyncio.CancelledError, "Cancel": Cancel, "KeyboardInterrupt": KeyboardInterrupt,
           "ValueError": ValueError}[case["exc"]]("leaves the block")
    seen = []

    async def aexit(et, ev, tb):
        seen.append(ev)
        return True

    def sexit(et, ev, tb):
        seen.append(ev)
        return True

    class Manager:
        async def __aenter__(self):
            return self

        __aexit__ = staticmethod(aexit)

    @a.contextmanager
    async def swallowing():
        try:
            yield
        except BaseException as err:  # noqa: B902
            seen.append(err)

    async def program():
        if case["kind"] == "contextmanager":
            async with swallowing():
                raise exc
            return "suppressed"
        async with a.ExitStack() as stack:
            for _ in range(case["depth"]):
                if case["kind"] == "push-async":
                    stack.push(aexit)
                elif case["kind"] == "push-sync":
                    stack.push(sexit)
                else:
                    await stack.enter_context(Manager())
            raise exc
        return "suppressed"

    def driven():
        ctx = Ctx("a")
        return run(ctx, program())

    undo = install_traps(record)
    try:
        outcome = driven()
    finally:
        undo()
    if record:
        raise Violation("C17/suppressed-cancellation/asyncio-loop-access", f"{case}: {record[:3]}")
    if outcome != ("return", "suppressed") or seen[:1] != [exc]:
        raise Violation("C17/suppressed-cancellation/outcome", f"{case}: {outcome!r} seen={seen!r}")
    # ... and the same while a real asyncio loop is running: the current task's cancellation state is not touched
    def under_loop():
        task = asyncio.current_task()
        before = task.cancelling()
        seen.clear()
        out = driven()
        return out, before, task.cancelling()

    out, before, after = under_asyncio(under_loop)
    if out != ("return", "suppressed") or before != after:
        raise Violation("C17/suppressed-cancellation/task-state-changed", f"{case}: {out!r} cancelling {before} -> {after}")
    return None


def cm_programs():
    from . import c13

    return [c for c in c13.table() if c["susp"] == 1 and c["first"] == "yield"]


def shards(tier):
    out = [Shard(name, check_tool, strategy=with_real_loop(c18.tool_cases(name, tier, cfaults=False)), n=60, nontrivial=lambda c: False,
                 thorough_mult=15) for name in ALL]
    out += [Shard(f"sync-{name}", check_sync, strategy=with_real_loop(sync_cases(name)), n=60,
                  nontrivial=lambda c: bool(c["fns"]), thorough_mult=15) for name in ALL]
    specials = [("op-tee-lock", c18.tee_cases, c18.run_tee), ("op-lru_cache", c18.lru_cases, c18.run_lru),
                ("op-cached_property", c18.prop_cases, c18.run_prop), ("op-exitstack", c18.stack_cases, c18.run_stack),
                ("op-scoped_iter", c18.scoped_cases, c18.run_scoped)]
    for name, strat, runner in specials:
        out.append(Shard(name, (lambda case, runner=runner, name=name: check_special(case, runner, name)),
                         strategy=with_real_loop(strat(tier)), n=150, nontrivial=lambda c: False, thorough_mult=15))
    out += [Shard(f"sync-long-{name}", check_sync, fuzz=0, strategy=sync_cases(name, long=True), n=25,
                  nontrivial=lambda c: True, thorough_mult=10) for name in ALL]
    out += [Shard(f"sync-huge-{name}", check_sync, fuzz=0, strategy=huge_cases(name, False).map(lambda c: dict(c, real_loop=True)),
                  n=2, nontrivial=lambda c: True, thorough_mult=2) for name in HUGE if name in TOOLS]
    # ... and with the optional callable (key / predicate / function) given: other code paths, same promise
    out += [Shard(f"sync-huge-{name}-fn", check_sync, fuzz=0, strategy=huge_cases(name, True).map(lambda c: dict(c, real_loop=True)),
                  n=2, nontrivial=lambda c: True, thorough_mult=2)
            for name in HUGE if name in TOOLS and TOOLS[name].optional_roles]
    out.append(Shard("tee-concurrent-close", check_tee_close, strategy=tee_close_cases(), n=400,
                     nontrivial=lambda c: True, thorough_mult=10))
    out.append(Shard("tee-nolock", check_tee_nolock, strategy=tee_nolock_cases(), n=300,
                     nontrivial=lambda c: True, thorough_mult=10))
    out.append(Shard("groupby-concurrent", check_groupby_concurrent, strategy=groupby_conc_cases(), n=400,
                     nontrivial=lambda c: True, thorough_mult=10))
    out.append(Shard("lru_cache-across-loops", check_loop_switch, strategy=loop_switch_cases(tier), n=300,
                     nontrivial=lambda c: len(set(c["loops"])) >= 2, thorough_mult=10))
    # the asynctools adapters (any_iter / await_each grid, apply, sync) while a REAL asyncio loop is running around the
    # hand-driven one: they must not notice (no gather, no wrap_future, no tasks: the user's awaitables are awaited
    # where they are, one after the other, and their suspensions reach whoever drives the coroutine)
    from . import c19

    def looped(fn):
        def check_under_loop(case):
            try:
                return under_asyncio(lambda: fn(case))
            except Violation as v:
                raise Violation("C17/under-asyncio/" + v.bucket.split("/", 1)[-1], v.detail, case=v.case) from None
        return check_under_loop

    grid = c19.grid()
    out.append(Shard("adapters-grid-under-asyncio", looped(c19.check_grid),
                     cases=lambda: grid[::5], nontrivial=c19.grid_nontrivial, exhaustive=False))
    out.append(Shard("apply-under-asyncio", looped(c19.check_apply),
                     strategy=c19.apply_cases(), n=300, nontrivial=lambda c: bool(c["pos"]) and bool(c["kw"]),
                     thorough_mult=10))
    out.append(Shard("sync-under-asyncio", looped(c19.check_sync),
                     strategy=c19.sync_cases(), n=300, nontrivial=lambda c: len(set(c["calls"])) >= 2, thorough_mult=10))
    out.append(Shard("suppressed-cancellation", check_suppressed_cancellation, cases=suppress_cases,
                     nontrivial=lambda c: c["exc"] != "ValueError", exhaustive=True))
    out.append(Shard("contextmanager-programs", check_cm_program, cases=cm_programs,
                     nontrivial=lambda c: c["handler"] != "none", exhaustive=True))
    out.append(Shard("sync-adapters", check_adapter, cases=lambda: [{"adapter": k} for k in _adapters()],
                     nontrivial=lambda c: True, exhaustive=True))
    out.append(Shard("no-asyncio-subprocess", check_battery, fuzz=0, strategy=batteries(tier), n=4,
                     nontrivial=lambda c: False, thorough_mult=5))
    return out
