"""C07 - a borrowed iterator can never close its underlying iterator (histories)."""
import gc
import itertools
import heapq

from hypothesis import strategies as st

from ..runner import Shard, Violation
from ..gen import K, Uids
from ..core import expect_return
from ..driver import Fault, Ctx, run, loop_mode, close_orphans
from ..values import sig, mats
from ..doubles import make_source, AClassSource, AClassNoCloseSource as SourceBaseNoClose
from .. import env

env.setup()
import asyncstdlib as a  # noqa: E402

PROPERTY = "C07"
LEVEL = "exploration"
RULE = (
    "Model-based histories: Hypothesis draws an underlying iterator (async generator / class with aclose / "
    "class without aclose / class with aclose+asend+athrow / with aclose+asend only / with asend+athrow but no "
    "aclose) over 0-8 items and up to 25 operations from "
    "{next on a handle, next on the underlying, asend through a handle, close a handle, close iter(handle), "
    "hand a handle to tool T (32 tools/aggregations, six of them failing half-way because their callable "
    "raises) take j items and close T or abandon it, drop a handle "
    "and collect garbage, borrow the underlying or re-borrow a handle, call the __anext__ reference that was taken "
    "when the handle was obtained, close a handle while a fetch through it is parked inside a suspending underlying "
    "iterator (if that close is refused with RuntimeError the handle stays open, if it returns the handle is closed)}. Model: one shared synchronous "
    "iterator over the same items; tool rules run the stdlib namesake on the model iterator. After every "
    "operation: the underlying was never closed; every item obtained anywhere is exactly next(model) "
    "(identity), a closed handle (or one whose ancestor was closed) yields nothing and does not move the "
    "model; at the end the owner drains the underlying and gets exactly the model's rest. "
    "Non-trivial: the history closes a handle and later successfully advances the underlying or another "
    "handle, or applies a tool that takes >= 1 item."
)
ASSUMPTIONS = [
    "whether a tool closed the handle it was given is not predicted: afterwards the handle may stop or deliver next(model)",
    "athrow through a handle is a deliberate action on the underlying generator and not generated",
    "bound asend/athrow references taken BEFORE a handle was closed are not exercised afterwards (the library only promises this for __anext__)",
]


class SendSource(AClassSource):
    """class based iterator that also offers asend/athrow like a generator"""

    async def asend(self, value):
        return await self.__anext__()

    async def athrow(self, exc):
        raise exc


class SendOnlySource(AClassSource):
    """aclose + asend but NO athrow (not a full generator interface)"""

    async def asend(self, value):
        return await self.__anext__()


class SendNoCloseSource(SourceBaseNoClose):
    """asend + athrow but NO aclose"""

    async def asend(self, value):
        return await self.__anext__()

    async def athrow(self, exc):
        raise exc


class SendInstanceSource(AClassSource):
    """the generator methods are wired up per INSTANCE (attributes set in __init__), not defined on the class"""

    def __init__(self, ctx, name, items, spec=None):
        super().__init__(ctx, name, items, spec)
        self.asend = self._send
        self.athrow = self._throw

    async def _send(self, value):
        return await self.__anext__()

    async def _throw(self, exc):
        raise exc


class ToolError(Exception):
    pass


def _last(*args):
    return args[-1]


def _boom_at(k):
    def fn(*args):
        if args[-1].key == k:
            raise ToolError(k)
        return args[-1]

    return fn


def _boom_pred(k):
    def fn(item):
        if item.key == k:
            raise ToolError(k)
        return True

    return fn


# name -> (async builder(handle, k), sync builder(model_iter, k), is_aggregation)
TOOLS7 = {
    "islice": (lambda h, k: a.islice(h, k), lambda m, k: itertools.islice(m, k), False),
    "islice3": (lambda h, k: a.islice(h, 1, k + 2, 2), lambda m, k: itertools.islice(m, 1, k + 2, 2), False),
    "takewhile": (lambda h, k: a.takewhile(lambda x: x.key <= k, h), lambda m, k: itertools.takewhile(lambda x: x.key <= k, m), False),
    "dropwhile": (lambda h, k: a.dropwhile(lambda x: x.key <= k, h), lambda m, k: itertools.dropwhile(lambda x: x.key <= k, m), False),
    "filter": (lambda h, k: a.filter(lambda x: x.key != k, h), lambda m, k: filter(lambda x: x.key != k, m), False),
    "filterfalse": (lambda h, k: a.filterfalse(lambda x: x.key == k, h), lambda m, k: itertools.filterfalse(lambda x: x.key == k, m), False),
    "map": (lambda h, k: a.map(_last, h), lambda m, k: map(_last, m), False),
    "zip": (lambda h, k: a.zip(range(k), h), lambda m, k: zip(range(k), m), False),
    "zip2": (lambda h, k: a.zip(h, range(k)), lambda m, k: zip(m, range(k)), False),
    "zip_strict": (lambda h, k: a.zip(h, range(k), strict=True), lambda m, k: zip(m, range(k), strict=True), False),
    "enumerate": (lambda h, k: a.enumerate(h, k), lambda m, k: enumerate(m, k), False),
    "batched": (lambda h, k: a.batched(h, k + 1), lambda m, k: itertools.batched(m, k + 1), False),
    "pairwise": (lambda h, k: a.pairwise(h), lambda m, k: itertools.pairwise(m), False),
    "accumulate": (lambda h, k: a.accumulate(h, _last, initial=0), lambda m, k: itertools.accumulate(m, _last, initial=0), False),
    "chain": (lambda h, k: a.chain(h, []), lambda m, k: itertools.chain(m, []), False),
    "compress": (lambda h, k: a.compress(h, [1, 0, 1, 1, 0][:k + 1]), lambda m, k: itertools.compress(m, [1, 0, 1, 1, 0][:k + 1]), False),
    # the shared iterator in the SECOND place, behind a shorter first input: it is asked only after the first one
    "compress-selectors": (lambda h, k: a.compress(range(k), h), lambda m, k: itertools.compress(range(k), m), False),
    "map2": (lambda h, k: a.map(_last, range(k), h), lambda m, k: map(_last, range(k), m), False),
    "zip3": (lambda h, k: a.zip(range(k + 1), h, range(k)), lambda m, k: zip(range(k + 1), m, range(k)), False),
    "zip_longest2": (lambda h, k: a.zip_longest(range(k), h), lambda m, k: itertools.zip_longest(range(k), m), False),
    "chain2": (lambda h, k: a.chain(range(k), h), lambda m, k: itertools.chain(range(k), m), False),
    "starmap": (lambda h, k: a.starmap(_last, a.zip(h)), lambda m, k: itertools.starmap(_last, zip(m)), False),
    "zip_longest": (lambda h, k: a.zip_longest(h, range(k)), lambda m, k: itertools.zip_longest(m, range(k)), False),
    "merge": (lambda h, k: a.merge(h, key=lambda x: 0), lambda m, k: heapq.merge(m, key=lambda x: 0), False),
    "cycle": (lambda h, k: a.cycle(h), lambda m, k: itertools.cycle(m), False),
    "tee": (lambda h, k: a.tee(h, 1)[0], lambda m, k: itertools.tee(m, 1)[0], False),
    # tools that fail half-way (the callable raises at the first item whose key is k)
    "map-raises": (lambda h, k: a.map(_boom_at(k), h), lambda m, k: map(_boom_at(k), m), False),
    "takewhile-raises": (lambda h, k: a.takewhile(_boom_pred(k), h), lambda m, k: itertools.takewhile(_boom_pred(k), m), False),
    "filter-raises": (lambda h, k: a.filter(_boom_pred(k), h), lambda m, k: filter(_boom_pred(k), m), False),
    "accumulate-raises": (lambda h, k: a.accumulate(h, _boom_at(k), initial=0), lambda m, k: itertools.accumulate(m, _boom_at(k), initial=0), False),
    "reduce-raises": (lambda h, k: a.reduce(_boom_at(k), h, None), lambda m, k: __import__("functools").reduce(_boom_at(k), m, None), True),
    "min-key-raises": (lambda h, k: a.min(h, key=_boom_pred(k), default=None), lambda m, k: min(m, key=_boom_pred(k), default=None), True),
    # (sorted with a failing key is left out: the stdlib collects the whole input before calling key,
    #  asyncstdlib interleaves - how much a FAILING sorted consumed is not something C07/C08 pin down)
    "list": (lambda h, k: a.list(h), lambda m, k: list(m), True),
    # the items are no pairs: dict fails on the FIRST one and has taken only that one from a shared iterator
    "dict-of-non-pairs": (lambda h, k: a.dict(h), lambda m, k: dict(m), True),
    "any": (lambda h, k: a.any(a.map(lambda x: x.key == k, h)), lambda m, k: any(map(lambda x: x.key == k, m)), True),
    "min": (lambda h, k: a.min(h, key=lambda x: x.key, default=None), lambda m, k: min(m, key=lambda x: x.key, default=None), True),
    "nlargest": (lambda h, k: a.nlargest(h, k, key=lambda x: x.key), lambda m, k: heapq.nlargest(k, m, key=lambda x: x.key), True),
    "reduce": (lambda h, k: a.reduce(_last, h, None), lambda m, k: __import__("functools").reduce(_last, m, None), True),
}


def _osig(name, value):
    # accumulate(initial=...) yields the initial first: normalise it on both sides
    return sig(value)


@st.composite
def histories(draw, tier):
    uids = Uids()
    items = [uids.fix(x) for x in draw(st.lists(K, max_size=8 if tier == "quick" else 12))]
    nops = 25 if tier == "quick" else 40
    op = st.one_of(
        st.tuples(st.just("next"), st.integers(0, 5)),
        st.tuples(st.just("next"), st.integers(0, 5)),
        st.tuples(st.just("next-u")),
        st.tuples(st.just("asend"), st.integers(0, 5)),
        st.tuples(st.just("close"), st.integers(0, 5)),
        st.tuples(st.just("close-iter"), st.integers(0, 5)),
        st.tuples(st.just("tool"), st.integers(0, 5), st.sampled_from(sorted(TOOLS7)), st.integers(0, 3),
                  st.integers(0, 4), st.booleans()),
        st.tuples(st.just("drop"), st.integers(0, 5)),
        st.tuples(st.just("borrow"), st.integers(-1, 5)),
        st.tuples(st.just("borrow"), st.just(-1)),
        # the __anext__ reference taken when the handle was obtained (the hot-loop idiom ``fetch = it.__anext__``)
        st.tuples(st.just("next-captured"), st.integers(0, 5)),
        # a second task closes the handle while a fetch through it is suspended in the underlying iterator
        st.tuples(st.just("close-during-fetch"), st.integers(0, 5)),
    )
    ops = [list(o) for o in draw(st.lists(op, max_size=nops))]
    if draw(st.integers(0, 4)) == 0:
        # a child borrowed from a handle, the parent handle is closed, the child is then tried by every method
        pre = [["borrow", 0]] + [["next", 1]] * draw(st.integers(0, 2)) + [["close", 0], ["asend", 1], ["next", 1],
                                                                           ["next-captured", 1], ["next-u"]]
        ops = pre + ops
    elif draw(st.integers(0, 3)) == 0:
        # ... and the other way round: the CHILD loan is closed (and tried), the parent handle goes on working
        pre = [["borrow", 0]] + [["next", 1]] * draw(st.integers(0, 2)) + [["close", 1], ["next", 1], ["next", 0], ["next", 0],
                                                                           ["asend", 0], ["next-u"]]
        ops = pre + ops
    fault_at = draw(st.one_of(st.none(), st.none(), st.integers(1, 6)))
    if fault_at and draw(st.booleans()):
        # make sure the failure is met through a handle, which is then closed and tried again by every method
        h = draw(st.integers(0, 2))
        ops += [["next", h]] * fault_at + [["close", h], ["asend", h], ["next-captured", h], ["next-u"]]
    return {"items": items, "kind": draw(st.sampled_from(["agen", "agen", "aclass", "aclass_noclose", "send",
                                                             "send_only", "send_noclose", "send_instance", "send_proxy"])),
            "mode": draw(st.sampled_from(["hooks", "bare"])), "ops": [["borrow", -1]] + ops,
            "susp": draw(st.integers(0, 1)),
            # a class-based underlying iterator fails ONCE, at its k-th pull, and works again afterwards
            "fault_at": fault_at}


class Handle:
    __slots__ = ("obj", "parent", "state", "dropped", "captured")

    def __init__(self, obj, parent):
        self.obj = obj
        self.captured = obj.__anext__
        self.parent = parent
        self.state = "live"  # live | closed | unknown
        self.dropped = False  # we no longer hold it (a child may still keep it alive)


def lineage_state(h):
    """closed if self/any ancestor closed; unknown if any unknown; else live"""
    states = []
    while h is not None:
        states.append(h.state)
        h = h.parent
    # a dropped ancestor is kept alive by its child: dropping our reference closes nothing
    if "closed" in states:
        return "closed"
    if "broken" in states:
        return "broken"  # a failure of the underlying went through it: may or may not deliver, by either method
    if "unknown" in states:
        return "unknown"
    return "live"


def check(case):
    ctx = Ctx("a")
    items = mats(case["items"])
    kind = case["kind"]
    spec = {"susp": case.get("susp", 0)}
    fault_at = case.get("fault_at") if kind != "agen" else None  # (a generator is finished by its own failure)
    if fault_at:
        spec["fault"] = {"at": fault_at, "exc": "Fault", "transient": True}
    if kind == "send":
        src = SendSource(ctx, "u", items, spec)
    elif kind == "send_only":
        src = SendOnlySource(ctx, "u", items, spec)
    elif kind == "send_noclose":
        src = SendNoCloseSource(ctx, "u", items, spec)
    elif kind == "send_instance":
        src = SendInstanceSource(ctx, "u", items, spec)
    elif kind == "send_proxy":
        src = SendSource(ctx, "u", items, spec)
    else:
        src = make_source(ctx, "u", items, dict(spec, fl=kind), "a")
    underlying = src.obj
    if kind == "send_proxy":
        # ... or reach the borrower only through a delegating proxy (__getattr__): found on the instance, not on its type
        from ..doubles import _Proxy

        underlying = _Proxy(src)
    model = _Model(list(items), fault_at)
    planned = src.fault_exc
    handles = []
    problems = []

    def fail(kind_, detail):
        problems.append((kind_, detail))
        raise _Stop()

    def model_next():
        try:
            return next(model, _END)
        except Fault:
            return _FAULT

    def underlying_closed():
        if kind == "agen":
            return src.close_calls > 0 or (underlying.ag_frame is None and not src.exhausted)
        return src.close_calls > 0 or bool(getattr(src, "closed", False))

    async def pull(h, via, resume=None, state=None):
        """advance handle h via __anext__ or asend; compare with the model"""
        state = state or lineage_state(h)
        try:
            if via == "asend":
                value = await h.obj.asend(None)
            elif via == "captured":
                value = await h.captured()
            elif via == "resume":
                value = await resume  # a fetch that was started (and suspended) earlier
            else:
                value = await h.obj.__anext__()
        except StopAsyncIteration:
            if state == "live":
                # only legitimate if the underlying is exhausted
                expected = model_next()
                if expected is not _END:
                    fail("live-handle-stopped-early", f"expected {sig(expected)}")
            if state != "broken":
                h.state = "closed"
            return
        except Fault as exc:
            if exc is not planned:
                raise
            if state == "closed":
                fail("closed-handle-reached-the-underlying", "its failure came through a closed handle")
            if model_next() is not _FAULT:
                fail("failure-of-the-underlying-at-the-wrong-pull", f"pull {src.pulls}")
            # the failure went through the wrappers of this handle and of its ancestors: whether they still
            # deliver is not specified; once CLOSED, however, they must be silent
            g = h
            while g is not None:
                if g.state in ("live", "unknown"):
                    g.state = "broken"
                g = g.parent
            return
        if state == "closed":
            fail("closed-handle-yielded", f"got {sig(value)}")
        expected = model_next()
        if expected is _FAULT:
            fail("failure-of-the-underlying-swallowed", f"got {sig(value)} instead")
        if expected is _END or value is not expected:
            fail("item-not-next-of-underlying", f"got {sig(value)} expected "
                 f"{'<end>' if expected is _END else sig(expected)}")
        if state == "unknown":
            # it delivered: the lineage is evidently still live
            g = h
            while g is not None:
                if g.state == "unknown":
                    g.state = "live"
                g = g.parent

    async def history():
        nonlocal handles
        for step, op in enumerate(case["ops"]):
            name = op[0]
            if name == "borrow":
                parent = None
                if op[1] >= 0 and handles:
                    parent = handles[op[1] % len(handles)]
                    if parent.dropped:
                        continue
                base = underlying if parent is None else parent.obj
                if kind == "aclass_noclose" and parent is None:
                    pass
                handles.append(Handle(a.borrow(base), parent))
            elif name == "next-u":
                try:
                    value = await underlying.__anext__()
                except StopAsyncIteration:
                    if model_next() is not _END:
                        fail("underlying-stopped-early", f"step {step}")
                    continue
                except Fault as exc:
                    if exc is not planned or model_next() is not _FAULT:
                        fail("failure-of-the-underlying-at-the-wrong-pull", f"step {step}")
                    continue
                expected = model_next()
                if expected is _END or value is not expected:
                    fail("underlying-lost-or-duplicated-item", f"step {step}: got {sig(value)}")
            else:
                if not handles:
                    continue
                h = handles[op[1] % len(handles)]
                if h.dropped:
                    continue
                if name == "next":
                    await pull(h, "anext")
                elif name == "next-captured":
                    await pull(h, "captured")
                elif name == "close-during-fetch":
                    state = lineage_state(h)
                    if state in ("unknown", "broken"):
                        continue
                    fetch = _Started(h.obj.__anext__())
                    closed_ok = None
                    if fetch.suspended:
                        # the fetch is parked inside the underlying iterator: now "another task" closes the handle
                        try:
                            await h.obj.aclose()
                            closed_ok = True
                        except RuntimeError:
                            closed_ok = False  # refused while busy: the handle simply stays open
                    await pull(h, "resume", resume=fetch, state=state)
                    if closed_ok:
                        h.state = "closed"
                elif name == "asend":
                    if hasattr(h.obj, "asend"):
                        await pull(h, "asend")
                elif name == "close":
                    await h.obj.aclose()
                    h.state = "closed"
                elif name == "close-iter":
                    await a.iter(h.obj).aclose()
                    h.state = "closed"
                elif name == "drop":
                    h.obj = None
                    h.dropped = True
                    # reference counting frees an abandoned handle at once; the young generation is
                    # collected as well (a full collection per drop made the thorough tier take 40 min)
                    gc.collect(0)
                elif name == "tool":
                    if lineage_state(h) != "live":
                        continue
                    log_mark = len(ctx.log)
                    _, _, tname, k, j, close = op
                    mk_a, mk_s, is_agg = TOOLS7[tname]
                    if is_agg:
                        try:
                            got = await mk_a(h.obj, k)
                        except Exception as exc:
                            got = ("raise", type(exc).__name__)
                        try:
                            want = mk_s(model, k)
                        except Exception as exc:
                            want = ("raise", type(exc).__name__)
                        if sig(got) != sig(want):
                            fail("tool-result-differs", f"{tname}: {sig(got)} vs {sig(want)}")
                    else:
                        it_a = mk_a(h.obj, k)
                        it_s = mk_s(model, k)
                        for _ in range(j):
                            try:
                                ga = ("item", sig(await it_a.__anext__()))
                            except StopAsyncIteration:
                                ga = ("stop",)
                            except Exception as exc:
                                ga = ("raise", type(exc).__name__)
                            try:
                                gs = ("item", sig(next(it_s)))
                            except StopIteration:
                                gs = ("stop",)
                            except Exception as exc:
                                gs = ("raise", type(exc).__name__)
                            if ga != gs:
                                fail("tool-items-differ", f"{tname}({k}) step: async={ga} model={gs}")
                            if ga[0] != "item":
                                break
                        if close and hasattr(it_a, "aclose"):
                            await it_a.aclose()
                        del it_a
                    h.state = "unknown"
                    if src.fault_exc is not None and any(e[0] == "fault" for e in ctx.log[log_mark:]):
                        # the underlying's failure passed through this handle AND through its ancestors
                        g = h
                        while g is not None:
                            if g.state in ("live", "unknown"):
                                g.state = "broken"
                            g = g.parent
            if underlying_closed():
                fail("underlying-closed", f"after step {step}: {op}")
        # teardown: the owner drains the underlying and gets exactly the rest
        rest, want = [], []
        for _attempt in range(2):  # the one-off failure may still be ahead
            try:
                async for value in underlying:
                    rest.append(value)
                break
            except Fault as exc:
                if exc is not planned:
                    raise
        for _attempt in range(2):
            try:
                want.extend(model)
                break
            except Fault:
                pass
        if len(rest) != len(want) or any(x is not y for x, y in zip(rest, want)):
            fail("owner-did-not-get-the-rest", f"got {[sig(x) for x in rest]} want {[sig(x) for x in want]}")

    async def guarded():
        try:
            await history()
        except _Stop:
            pass

    with loop_mode(ctx, case["mode"]):
        outcome = run(ctx, guarded())
        expect_return(outcome, "C07/history")
        close_orphans(ctx)
    if problems:
        kind_, detail = problems[0]
        raise Violation(f"C07/{kind_}", f"{detail} kind={case['kind']} mode={case['mode']}")


class _Stop(Exception):
    pass


class _Started:
    """an awaitable that was already driven up to its first suspension (or to completion)"""

    def __init__(self, awaitable):
        self.it = awaitable.__await__()
        self.suspended = False
        self.result = None
        try:
            self.pending = self.it.send(None)
            self.suspended = True
        except StopIteration as exc:
            self.result = ("return", exc.value)
        except BaseException as exc:  # noqa: B902
            self.result = ("raise", exc)

    def __await__(self):
        if self.result is None:
            pending = self.pending
            while True:
                reply = yield pending  # hand the parked suspension on to the driver, pass its answer back
                try:
                    pending = self.it.send(reply)
                except StopIteration as exc:
                    self.result = ("return", exc.value)
                    break
                except BaseException as exc:  # noqa: B902
                    self.result = ("raise", exc)
                    break
        if self.result[0] == "raise":
            raise self.result[1]
        return self.result[1]


_END = object()
_FAULT = object()


class _Model:
    """the reference: a plain synchronous iterator over the same items that fails once at the same pull"""

    def __init__(self, items, fault_at):
        self.items, self.fault_at = items, fault_at
        self.idx = self.pulls = 0
        self.done = False

    def __iter__(self):
        return self

    def __next__(self):
        if self.done:
            raise StopIteration
        self.pulls += 1
        if self.fault_at and self.pulls == self.fault_at:
            raise Fault("planned:u")
        if self.idx >= len(self.items):
            self.done = True
            raise StopIteration
        self.idx += 1
        return self.items[self.idx - 1]


def nontrivial(case):
    ops = case["ops"]
    closes = [i for i, o in enumerate(ops) if o[0] in ("close", "close-iter", "close-during-fetch")]
    if closes and any(o[0] in ("next", "next-u", "next-captured") for o in ops[closes[0] + 1:]):
        return True
    return any(o[0] == "tool" and o[4] >= 1 for o in ops) and len(case["items"]) >= 2


def classify(case):
    kinds = {o[0] for o in case["ops"]}
    return [f"has-{k}" for k in sorted(kinds)] + [f"underlying-{case['kind']}"]


def shards(tier):
    return [Shard(f"histories-{i}", check, strategy=histories(tier), n=400, nontrivial=nontrivial,
                  classify=classify, thorough_mult=20) for i in range(16)]
