"""C20 - streaming tools retain a bounded number of items however long the stream."""
import gc
import weakref

from hypothesis import strategies as st

from ..runner import Shard, Violation
from ..driver import Ctx, run, loop_mode, close_orphans
from .. import env

env.setup()
import asyncstdlib as a  # noqa: E402

PROPERTY = "C20"
LEVEL = "exploration"
RULE = (
    "For every streaming tool (zip, map, filter, enumerate, iter/sentinel, accumulate, batched, chain, "
    "chain.from_iterable, compress, dropwhile, filterfalse, islice, pairwise, starmap, takewhile, "
    "zip_longest, merge, groupby, tee) and single-pass aggregation (all any sum min max reduce nlargest "
    "nsmallest) Hypothesis draws parameters and a stream length (50-400 quick, to 2000 thorough); sources "
    "create weak-referenceable items lazily and keep none; the consumer drops every item at once. "
    "Invariant at every 10th consumer step and at the end (after gc): alive source items <= window + "
    "3*sources + 3, window = batch size / n of nlargest,nsmallest / lead of the fastest over the slowest "
    "live tee child / 0; the constant does not depend on the stream length. tee cases draw per-child "
    "progress patterns and early closes (also before the first item), optionally with child 0 handed on to a second "
    "tee; borrow-loop: a long stream processed record by record, each record through a fresh borrow() of one scoped / "
    "borrowed parent that is abandoned, closed or exhausted through islice. Non-trivial: stream length >= 10x "
    "the bound (an accumulating implementation must exceed it); distinct by tool, parameters, length, pattern."
)
ASSUMPTIONS = [
    "retention is observed through CPython reference counting plus gc.collect(); a statement about CPython 3.12",
    "cycle, sorted, list/tuple/set/dict and lagging tee children are documented accumulators and excluded",
    "borrow-loop: the event loop gets a turn between two records, so async generators abandoned by the consumer are finalised by the loop's asyncgen hook (as under asyncio)",
]


class W:
    """weak-referenceable item ordered by key"""

    __slots__ = ("key", "__weakref__")

    def __init__(self, key):
        self.key = key

    def __lt__(self, other):
        return self.key < other.key

    def __gt__(self, other):
        return self.key > other.key

    def __eq__(self, other):
        return isinstance(other, W) and self.key == other.key

    def __hash__(self):
        return hash(self.key)

    def __bool__(self):
        return True

    def __add__(self, other):
        return W(self.key + (other.key if isinstance(other, W) else other))

    def __radd__(self, other):
        return W(self.key + other)


class Registry:
    def __init__(self):
        self.refs = []

    def new(self, key):
        item = W(key)
        self.refs.append(weakref.ref(item))
        return item

    def alive(self):
        n = sum(1 for r in self.refs if r() is not None)
        return n

    def alive_gc(self, bound):
        n = self.alive()
        if n > bound:
            gc.collect()
            n = self.alive()
        self.refs = [r for r in self.refs if r() is not None]
        return n


def lazy_source(reg, n, keyfn, kind):
    """A source that creates its items on demand and keeps none."""
    if kind == "agen":
        async def gen():
            for i in range(n):
                yield reg.new(keyfn(i))
        return gen()
    if kind == "iter":
        return (reg.new(keyfn(i)) for i in range(n))
    if kind == "sized-sync":
        class Dataset:
            """a regular, re-iterable collection that knows its length but makes its rows only when it is iterated
            (a lazy dataset): sized, not a sequence - and certainly nothing to copy up front"""

            def __len__(self):
                return n

            def __iter__(self):
                return (reg.new(keyfn(i)) for i in range(n))

        return Dataset()

    class Src:
        def __init__(self):
            self.i = 0

        def __aiter__(self):
            return self

        async def __anext__(self):
            if self.i >= n:
                raise StopAsyncIteration
            self.i += 1
            return reg.new(keyfn(self.i - 1))

        async def aclose(self):
            self.i = n

    if kind == "sized":
        class SizedSrc(Src):
            """a live stream that reports its current backlog as its length (like a queue): says nothing about
            how many items will come"""

            def __len__(self):
                return min(2, n - self.i)

        return SizedSrc()
    return Src()


def last(*args):
    return args[-1]


async def alast(*args):
    return args[-1]


# name -> (number of sources, builder(S, p) , window(p))
STREAM = {
    "zip": (lambda p: p["nsrc"], lambda S, p: a.zip(*S, strict=p["flag"]), lambda p: 0),
    "map": (lambda p: p["nsrc"], lambda S, p: a.map(alast if p["flag"] else last, *S), lambda p: 0),
    "filter": (lambda p: 1, lambda S, p: a.filter((lambda x: x.key % p["k"] == 0) if p["flag"] else None, S[0]), lambda p: 0),
    "enumerate": (lambda p: 1, lambda S, p: a.enumerate(S[0], p["k"]), lambda p: 0),
    "accumulate": (lambda p: 1, lambda S, p: a.accumulate(S[0], alast if p["flag"] else last), lambda p: 0),
    "accumulate-add": (lambda p: 1, lambda S, p: a.accumulate(S[0]), lambda p: 0),
    "batched": (lambda p: 1, lambda S, p: a.batched(S[0], p["k"]), lambda p: p["k"]),
    "chain": (lambda p: p["nsrc"], lambda S, p: a.chain(*S), lambda p: 0),
    "chain_from_iterable": (lambda p: p["nsrc"], lambda S, p: a.chain.from_iterable(S), lambda p: 0),
    "compress": (lambda p: 1, lambda S, p: a.compress(S[0], _selectors(p)), lambda p: 0),
    "dropwhile": (lambda p: 1, lambda S, p: a.dropwhile(lambda x: x.key < p["k"], S[0]), lambda p: 0),
    "filterfalse": (lambda p: 1, lambda S, p: a.filterfalse(lambda x: x.key % p["k"] == 0, S[0]), lambda p: 0),
    "islice": (lambda p: 1, lambda S, p: a.islice(S[0], p["k"], None, 1 + p["k"] % 3), lambda p: 0),
    "pairwise": (lambda p: 1, lambda S, p: a.pairwise(S[0]), lambda p: 0),
    "starmap": (lambda p: 1, lambda S, p: a.starmap(alast if p["flag"] else last, a.zip(S[0])), lambda p: 0),
    "takewhile": (lambda p: 1, lambda S, p: a.takewhile(lambda x: True, S[0]), lambda p: 0),
    "zip_longest": (lambda p: p["nsrc"], lambda S, p: a.zip_longest(*S), lambda p: 0),
    "merge": (lambda p: p["nsrc"], lambda S, p: a.merge(*S, key=(lambda x: x.key) if p["flag"] else None), lambda p: 0),
    "iter_sentinel": (lambda p: 0, None, lambda p: 0),
}
AGG = {
    "all": (lambda S, p: a.all(S[0]), lambda p: 0),
    "any": (lambda S, p: a.any(a.map(lambda x: False, S[0])), lambda p: 0),
    "sum": (lambda S, p: a.sum(S[0]), lambda p: 0),
    "min": (lambda S, p: a.min(S[0], key=(lambda x: x.key) if p["flag"] else None), lambda p: 0),
    "max": (lambda S, p: a.max(S[0], key=(lambda x: -x.key) if p["flag"] else None), lambda p: 0),
    "reduce": (lambda S, p: a.reduce(alast if p["flag"] else last, S[0]), lambda p: 0),
    # a C-level reduction (no Python frame of the harness between the items)
    "reduce-builtin": (lambda S, p: a.reduce(max if p["flag"] else min, S[0]), lambda p: 0),
    "nlargest": (lambda S, p: a.nlargest(S[0], p["k"], key=(lambda x: x.key % 7) if p["flag"] else None), lambda p: p["k"]),
    "nsmallest": (lambda S, p: a.nsmallest(S[0], p["k"], key=(lambda x: x.key % 7) if p["flag"] else None), lambda p: p["k"]),
}


def _selectors(p):
    k = p["k"]

    async def sel():
        i = 0
        while True:
            yield i % k == 0
            i += 1

    return sel()


@st.composite
def stream_cases(draw, name, tier):
    hi = 400 if tier == "quick" else 2000
    k = draw(st.integers(1, 6) if name not in ("batched", "nlargest", "nsmallest")
             else st.one_of(st.integers(1, 6), st.integers(7, 40), st.sampled_from([255, 256, 257, 300])))
    # (a big window needs a stream that is several times longer for the bound to say anything)
    length = draw(st.integers(50, hi)) if k < 200 else draw(st.integers(1500, 2500))
    return {"tool": name, "length": length, "nsrc": draw(st.integers(1, 3)),
            "k": k,
            "flag": draw(st.booleans()),
            "src": draw(st.sampled_from(["agen", "aclass", "iter", "sized", "sized-sync"])),
            "short_list": draw(st.booleans()),
            "keys": draw(st.sampled_from(["inc", "const", "mod"]))}


def keyfn_of(case, j=0):
    kind = case["keys"]
    if case["tool"] == "merge" or kind == "inc":
        return lambda i: i
    if kind == "const":
        return lambda i: 1
    return lambda i: i % 5


def bound_of(window, nsrc):
    return window + 3 * max(nsrc, 1) + 3


def check_stream(case):
    name = case["tool"]
    reg = Registry()
    n = case["length"]
    ctx = Ctx("a")
    if name in AGG:
        builder, window = AGG[name]
        nsrc = 1
    else:
        nsrc_fn, builder, window = STREAM[name]
        nsrc = nsrc_fn(case)
    bound = bound_of(window(case), nsrc)
    worst = [0, 0]

    def probe(step):
        if case.get("short_list") and step <= 30:
            return  # (the short list argument is the caller's data until the tool has read it to its end)
        alive = reg.alive_gc(bound)
        if alive > worst[0]:
            worst[0], worst[1] = alive, step

    async def consume():
        if name == "iter_sentinel":
            counter = [0]

            async def produce():
                counter[0] += 1
                return reg.new(counter[0] if counter[0] <= n else -1)

            it = a.iter(produce, W(-1))
        else:
            S = [lazy_source(reg, n, keyfn_of(case), case["src"]) for _ in range(nsrc)]
            if case.get("short_list") and nsrc >= 2 and name == "zip_longest":  # (chain keeps its arguments, as itertools.chain does; merge reads it as slowly as the rest)
                # one of the sources is a short LIST that only the tool still refers to: once the tool is through
                # with it (long before the stream ends) nothing keeps its items alive
                kf = keyfn_of(case)
                S[-1] = [reg.new(kf(i)) for i in range(25)]  # (used up before the first probe that counts, at step 40)
            made = builder(S, case)
            del S
            if name in AGG:
                # probe while the aggregation runs: wrap the source pulls
                result = await made
                del result
                probe(n)
                return
            it = made
        step = 0
        async for item in it:
            del item
            step += 1
            if step % 10 == 0:
                probe(step)
        probe(step)

    if name in AGG:
        # aggregation: measure from inside the stream, every 10th pull
        S_holder = {}
        orig_lazy = lazy_source

        def probing_source():
            keyfn = keyfn_of(case)
            if case["src"] in ("sized", "aclass"):
                class Probing:
                    def __init__(self):
                        self.i = 0

                    def __aiter__(self):
                        return self

                    async def __anext__(self):
                        if self.i >= n:
                            raise StopAsyncIteration
                        if self.i % 10 == 0 and self.i:
                            probe(self.i)
                        self.i += 1
                        return reg.new(keyfn(self.i - 1))

                    async def aclose(self):
                        self.i = n

                if case["src"] == "sized":
                    # a live stream reporting its current backlog as its length (like a queue)
                    Probing.__len__ = lambda self: min(2, n - self.i)
                return Probing()

            if case["src"] == "sized-sync":
                def rows():
                    for i in range(n):
                        if i % 10 == 0 and i:
                            probe(i)
                        yield reg.new(keyfn(i))

                class ProbingDataset:
                    def __len__(self):
                        return n

                    def __iter__(self):
                        return rows()

                return ProbingDataset()

            async def gen():
                for i in range(n):
                    if i % 10 == 0 and i:
                        probe(i)
                    yield reg.new(keyfn(i))
            return gen()

        async def consume_agg():
            result = await builder([probing_source()], case)
            del result

        coro = consume_agg()
    else:
        coro = consume()
    with loop_mode(ctx, "hooks"):
        outcome = run(ctx, coro)
        close_orphans(ctx)
    if outcome[0] != "return":
        # the consumers above only use the public API on valid inputs: any exception is the library's
        raise Violation(f"C20/{case['tool']}/unexpected-exception", repr(outcome))
    final_bound = bound
    if worst[0] > final_bound:
        raise Violation(f"C20/{name}/retains-more-than-window",
                        f"alive={worst[0]} at step {worst[1]} bound={final_bound} length={n}")


# ---- tee -------------------------------------------------------------------


@st.composite
def tee_cases(draw, tier):
    hi = 200 if tier == "quick" else 1000
    n = draw(st.integers(2, 4))
    length = draw(st.integers(50, hi))
    # per child: close after j items (None = never closes early), j may be 0
    closes = [draw(st.one_of(st.none(), st.integers(0, 40))) for _ in range(n)]
    if all(c is not None for c in closes):
        closes[draw(st.integers(0, n - 1))] = None
    lag = [draw(st.one_of(st.integers(0, 5), st.integers(0, 30))) for _ in range(n)]
    return {"tool": "tee", "n": n, "length": length, "closes": closes, "lag": lag,
            # nested: child 0 is handed, un-advanced, to a second tee and only consumed through that one's children
            "nested": draw(st.sampled_from([0, 0, 0, 2, 3])),
            "src": draw(st.sampled_from(["agen", "aclass", "iter"]))}


def check_tee(case):
    case = dict(case)
    reg = Registry()
    n, length = case["n"], case["length"]
    ctx = Ctx("a")
    problems = []

    async def consume():
        src = lazy_source(reg, length, lambda i: i, case["src"])
        nonlocal n
        handle = a.tee(src, n)
        children = list(handle)
        if case.get("nested"):
            inner = a.tee(children[0], case["nested"])
            children = list(inner) + children[1:]
            n = len(children)
            case["closes"] = ([None] * case["nested"] + list(case["closes"][1:]))[:n]
            case["lag"] = (list(case["lag"]) * 2)[:n]
        yielded = [0] * n
        live = [True] * n
        for i, c in enumerate(case["closes"]):
            if c == 0:
                await children[i].aclose()
                live[i] = False
        rounds = 0
        while any(live):
            rounds += 1
            front = max(yielded)
            # the children with the smallest lag drive the front, the others follow
            min_lag = min(case["lag"][i] for i in range(n) if live[i])
            for i in range(n):
                if not live[i]:
                    continue
                # child i keeps ``lag[i]`` items behind the front
                target = max(front + 1 - (case["lag"][i] - min_lag), yielded[i])
                while live[i] and yielded[i] < target:
                    try:
                        item = await children[i].__anext__()
                    except StopAsyncIteration:
                        live[i] = False
                        break
                    del item
                    yielded[i] += 1
                    c = case["closes"][i]
                    if c is not None and yielded[i] >= c:
                        await children[i].aclose()
                        live[i] = False
            if rounds % 10 == 0 or not any(live):
                lv = [yielded[i] for i in range(n) if live[i]]
                # items fetched from the source (front) but not yet yielded by the slowest live child
                lead = (max(yielded) - min(lv)) if lv else 0
                bound = lead + n + 1 + 3
                alive = reg.alive_gc(bound)
                if alive > bound:
                    problems.append((alive, bound, rounds, list(yielded), list(live)))
                    return
            if rounds > length * 3 + 50:
                break
        await handle.aclose()

    with loop_mode(ctx, "hooks"):
        outcome = run(ctx, consume())
        close_orphans(ctx)
    if outcome[0] != "return":
        # the consumers above only use the public API on valid inputs: any exception is the library's
        raise Violation(f"C20/{case['tool']}/unexpected-exception", repr(outcome))
    if problems:
        alive, bound, rounds, yielded, live = problems[0]
        raise Violation("C20/tee/retains-more-than-lead",
                        f"alive={alive} bound={bound} round={rounds} yielded={yielded} live={live}")


# ---- re-borrowing ----------------------------------------------------------


@st.composite
def borrow_cases(draw, tier):
    hi = 300 if tier == "quick" else 1500
    return {"tool": "borrow-loop", "length": draw(st.integers(60, hi)), "per": draw(st.integers(1, 3)),
            "parent": draw(st.sampled_from(["scoped", "borrow", "borrow-of-scoped", "scoped-nested"])),
            "leave": draw(st.sampled_from(["abandon", "abandon", "close", "exhaust-islice"])),
            "src": draw(st.sampled_from(["agen", "aclass"]))}


def check_borrow_loop(case):
    """a long stream is processed record by record, each record through a fresh borrow() of the same parent"""
    reg = Registry()
    length = case["length"]
    ctx = Ctx("a")
    bound = 4
    worst = [0, 0]

    async def records(parent):
        done = 0
        while done < length:
            loan = a.borrow(parent)
            taken = 0
            if case["leave"] == "exhaust-islice":
                async for item in a.islice(loan, case["per"]):
                    del item
                    taken += 1
            else:
                async for item in loan:
                    del item
                    taken += 1
                    if taken >= case["per"]:
                        break
                if case["leave"] == "close":
                    await loan.aclose()
            del loan
            # an abandoned loan is an async generator that the loop's finalizer hook closes on its next turn
            close_orphans(ctx)
            if not taken:
                break
            done += taken
            if done % 7 == 0:
                alive = reg.alive_gc(bound)
                if alive > worst[0]:
                    worst[0], worst[1] = alive, done

    async def consume():
        src = lazy_source(reg, length, lambda i: i, case["src"])
        if case["parent"] == "borrow":
            await records(a.borrow(src))
        elif case["parent"] == "scoped":
            async with a.scoped_iter(src) as it:
                await records(it)
        elif case["parent"] == "scoped-nested":
            async with a.scoped_iter(src) as outer:
                async with a.scoped_iter(outer) as it:
                    await records(it)
        else:
            async with a.scoped_iter(src) as it:
                await records(a.borrow(it))

    with loop_mode(ctx, "hooks"):
        outcome = run(ctx, consume())
        close_orphans(ctx)
    if outcome[0] != "return":
        raise Violation("C20/borrow-loop/unexpected-exception", repr(outcome))
    if worst[0] > bound:
        raise Violation("C20/borrow-loop/retains-more-than-window",
                        f"alive={worst[0]} after {worst[1]} items, bound={bound} length={length} {case}")


# ---- chain.from_iterable over a long lazy stream of small iterators -----------------------------


@st.composite
def chain_many_cases(draw, tier):
    hi = 300 if tier == "quick" else 1500
    return {"tool": "chain-many", "length": draw(st.integers(60, hi)), "per": draw(st.integers(1, 3)),
            "inner": draw(st.sampled_from(["aclass", "agen", "aclass-noclose"])),
            "outer": draw(st.sampled_from(["agen", "aclass"]))}


def check_chain_many(case):
    """the outer stream hands out many small inner iterators, each holding its own few records"""
    reg = Registry()
    n, per = case["length"], case["per"]
    ctx = Ctx("a")
    bound = 3 * per + 6
    worst = [0, 0]

    class Inner:
        def __init__(self, k):
            self.records = [reg.new(k * per + j) for j in range(per)]  # alive as long as this iterator is
            self.pos = 0

        def __aiter__(self):
            return self

        async def __anext__(self):
            if self.pos >= len(self.records):
                raise StopAsyncIteration
            self.pos += 1
            return self.records[self.pos - 1]

    class ClosableInner(Inner):
        async def aclose(self):
            self.pos = len(self.records)

    def make_inner(k):
        if case["inner"] == "agen":
            records = [reg.new(k * per + j) for j in range(per)]

            async def gen(records=records):
                for r in records:
                    yield r
            del records
            return gen()
        return (ClosableInner if case["inner"] == "aclass" else Inner)(k)

    def outer():
        count = n // per
        if case["outer"] == "agen":
            async def gen():
                for k in range(count):
                    yield make_inner(k)
            return gen()

        class Outer:
            k = 0

            def __aiter__(self):
                return self

            async def __anext__(self):
                if self.k >= count:
                    raise StopAsyncIteration
                self.k += 1
                return make_inner(self.k - 1)

            async def aclose(self):
                self.k = count

        return Outer()

    async def consume():
        step = 0
        async for item in a.chain.from_iterable(outer()):
            del item
            step += 1
            if step % 10 == 0:
                alive = reg.alive_gc(bound)
                if alive > worst[0]:
                    worst[0], worst[1] = alive, step

    with loop_mode(ctx, "hooks"):
        outcome = run(ctx, consume())
        close_orphans(ctx)
    if outcome[0] != "return":
        raise Violation("C20/chain-many/unexpected-exception", repr(outcome))
    if worst[0] > bound:
        raise Violation("C20/chain-many/retains-more-than-window",
                        f"alive={worst[0]} after {worst[1]} items, bound={bound} {case}")


# ---- groupby ---------------------------------------------------------------


@st.composite
def groupby_cases(draw, tier):
    hi = 400 if tier == "quick" else 2000
    return {"tool": "groupby", "length": draw(st.integers(50, hi)), "run": draw(st.integers(1, 30)),
            "take": draw(st.integers(0, 40)), "key": draw(st.booleans()),
            # every group is polled once more after the groupby has moved on (it is stale then and yields nothing)
            "poll_stale": draw(st.booleans()),
            "src": draw(st.sampled_from(["agen", "aclass", "iter"]))}


def check_groupby(case):
    reg = Registry()
    n, runlen = case["length"], case["run"]
    ctx = Ctx("a")
    bound = bound_of(0, 1)
    worst = [0, 0]

    async def consume():
        src = lazy_source(reg, n, lambda i: i // runlen, case["src"])
        gb = a.groupby(src, key=(lambda x: x.key)) if case["key"] else a.groupby(src)
        step = 0
        previous = None
        async for key, group in gb:
            del key
            if previous is not None and case.get("poll_stale"):
                async for item in previous:
                    del item
            previous = group if case.get("poll_stale") else None
            taken = 0
            async for item in group:
                del item
                taken += 1
                step += 1
                if step % 10 == 0:
                    worst[0] = max(worst[0], reg.alive_gc(bound))
                if taken >= case["take"]:
                    break
            del group
            worst[0] = max(worst[0], reg.alive_gc(bound))

    with loop_mode(ctx, "hooks"):
        outcome = run(ctx, consume())
        close_orphans(ctx)
    if outcome[0] != "return":
        # the consumers above only use the public API on valid inputs: any exception is the library's
        raise Violation(f"C20/{case['tool']}/unexpected-exception", repr(outcome))
    if worst[0] > bound:
        raise Violation("C20/groupby/retains-more-than-window", f"alive={worst[0]} bound={bound} length={n}")


def nontrivial(case):
    name = case["tool"]
    if name in ("borrow-loop", "chain-many"):
        return case["length"] >= 60
    if name == "tee":
        return case["length"] >= 10 * (max(case["lag"]) + case["n"] + 4)
    if name == "groupby":
        return case["length"] >= 10 * bound_of(0, 1)
    window = AGG[name][1](case) if name in AGG else STREAM[name][2](case)
    nsrc = 1 if name in AGG else STREAM[name][0](case)
    return case["length"] >= 10 * bound_of(window, nsrc)


def shards(tier):
    out = [Shard(name, check_stream, strategy=stream_cases(name, tier), n=150, nontrivial=nontrivial,
                 thorough_mult=10) for name in list(STREAM) + list(AGG)]
    out.append(Shard("tee", check_tee, strategy=tee_cases(tier), n=800, nontrivial=nontrivial, thorough_mult=10))
    out.append(Shard("chain-many", check_chain_many, strategy=chain_many_cases(tier), n=150, nontrivial=nontrivial,
                     thorough_mult=10))
    out.append(Shard("borrow-loop", check_borrow_loop, strategy=borrow_cases(tier), n=150, nontrivial=nontrivial,
                     thorough_mult=10))
    out.append(Shard("groupby", check_groupby, strategy=groupby_cases(tier), n=250, nontrivial=nontrivial,
                     thorough_mult=10))
    return out
