"""C16 - groupby matches itertools.groupby under every pattern of consuming groups."""
import itertools

from hypothesis import strategies as st

from ..runner import Shard, Violation
from ..gen import K, Uids
from ..core import expect_return, planned_name
from ..driver import Ctx, run, loop_mode, close_orphans
from ..values import sig, mats
from ..doubles import make_source, Fn
from .. import env

env.setup()
import asyncstdlib as a  # noqa: E402

PROPERTY = "C16"
LEVEL = "exploration"
RULE = (
    "Model-based histories: items of length 0-10 over 2-4 distinct keys (Items whose equality is reflexive, "
    "equal-yet-distinguishable), key absent / sync table / async table, source as list / iterator / async "
    "generator / class; up to 15 operations from {advance the groupby, advance group handle i (ANY previously "
    "returned group, also stale ones), close a stale group}. Every operation is mirrored on itertools.groupby over the same data; "
    "after each one the returned key, the returned item (identity) or the stop must be the same. "
    "Keys may also be equal across types (1, 1.0, True, Fraction(2) / 2.0) with or without key function; the long-runs "
    "shard uses runs of 1100-2300 equal keys that are skipped or only partly consumed. "
    "Non-trivial: the history advances a stale group, or advances the groupby while the current group is only "
    "partly consumed (and the input has >= 3 items)."
)
ASSUMPTIONS = ["keys with reflexive equality only (stated in the property)", "CPython 3.12 itertools.groupby is the oracle"]


@st.composite
def histories(draw, tier):
    uids = Uids()
    strict_mixed = False
    nkeys = draw(st.integers(2, 4))
    items = [uids.fix(("K", k)) for k in draw(st.lists(st.integers(0, nkeys - 1), min_size=draw(st.sampled_from([0, 3, 5])),
                                                             max_size=10 if tier == "quick" else 14))]
    key = draw(st.one_of(st.none(), st.lists(st.integers(0, 2).map(lambda n: ["i", n]), min_size=1, max_size=4)))
    if key is not None and draw(st.integers(0, 4)) == 0:
        # keys whose equality is reflexive and symmetric but NOT transitive (tolerance keys)
        key = [["T", k[1]] for k in draw(st.lists(st.integers(0, 4).map(lambda n: ["i", n]), min_size=2, max_size=5))]
    if key is not None and key[0][0] != "T" and draw(st.integers(0, 5)) == 0:
        # keys whose "!=" is not the negation of their "==" (a subclass widened "==" only): runs are decided by "=="
        key = [["NE", k[1]] for k in draw(st.lists(st.integers(0, 5).map(lambda n: ["i", n]), min_size=2, max_size=5))]
    elif key is not None and key[0][0] != "T" and draw(st.integers(0, 5)) == 0:
        # keys that refuse to be compared with anything but their own kind; or a FIRST key equal to everything
        key = [["SK", k[1]] for k in draw(st.lists(st.integers(0, 2).map(lambda n: ["i", n]), min_size=1, max_size=4))]
        if draw(st.integers(0, 1)) == 0 and len(key) >= 2:
            # ... among ordinary keys: comparing two DIFFERENT keys can fail then, inside a group poll as well as in
            # an advance of the groupby (whoever asks again gets the same answer from both implementations)
            key = [k if draw(st.integers(0, 1)) == 0 else ["i", k[1]] for k in key]
            strict_mixed = True
    elif key is not None and key[0][0] not in ("T", "SK", "NE") and draw(st.integers(0, 7)) == 0:
        key = [["E", 990 + i] if draw(st.integers(0, 2)) == 0 else k for i, k in enumerate(key)]
    mixed = [["i", 1], ["f", 1.0], ["b", True], ["i", 0], ["f", 0.0], ["b", False], ["i", 2], ["f", 2.0], ["F", 2, 1],
             ["n"], ["n"], ["s", ""], ["t", []]]  # None and other falsy values are keys like any other
    if key is not None and key[0][0] not in ("T", "SK", "E", "NE") and all(k[0] != "E" for k in key) and draw(st.integers(0, 3)) == 0:
        # keys that are EQUAL although their types differ (1 == 1.0 == True): one run, keyed by its first key
        key = draw(st.lists(st.sampled_from(mixed), min_size=2, max_size=5))
    elif key is None and items and draw(st.integers(0, 4)) == 0:
        # ... also when the items are their own keys
        items = draw(st.lists(st.sampled_from(mixed), min_size=3, max_size=10))
    if key is None and items and items[0][0] == "I" and draw(st.integers(0, 3)) == 0:
        # without a key function the items are their own keys - also when an item happens to be awaitable
        for pos in draw(st.lists(st.integers(0, len(items) - 1), min_size=1, max_size=3)):
            items[pos] = uids.fix(("AW",))
    ops = draw(st.lists(st.one_of(st.just(["gb"]), st.just(["gb"]),
                                  st.tuples(st.just("group"), st.integers(0, 6)).map(list),
                                  st.tuples(st.just("group"), st.integers(0, 6)).map(list),
                                  st.tuples(st.just("close-group"), st.integers(0, 6)).map(list),
                                  st.tuples(st.just("reiter"), st.integers(0, 6)).map(list),
                                  st.just(["drop-groupby"]),
                                  st.tuples(st.just("abandon"), st.integers(0, 7)).map(list),
                                  st.just(["close-current"])),
                        min_size=draw(st.sampled_from([0, 4, 6])), max_size=15 if tier == "quick" else 25))
    if strict_mixed and draw(st.booleans()):
        # ... and make sure a group is polled on, past the point where the comparison of its key with the next one fails
        ops = [["gb"]] + [["group", 0]] * 5 + ops
    return {"items": items, "key": key, "keyfl": draw(st.sampled_from(["def", "async", "obj", "eagercoro", "defcoro"])),
            "fl": draw(st.sampled_from(["list", "iter", "agen", "aclass"])), "ops": ops}


def check(case):
    ctx_a, ctx_s = Ctx("a"), Ctx("s")
    fault = case.get("fault")  # optional [resource, ordinal, exception name] (used by C06)
    sfault = {"at": fault[1], "exc": fault[2]} if fault and fault[0] == "s0" else None
    kfault = {"at": fault[1], "exc": fault[2]} if fault and fault[0] == "key" else None
    fl = case["fl"] if not (sfault and case["fl"] == "list") else "iter"
    src_a = make_source(ctx_a, "s0", mats(case["items"]), {"fl": fl, "fault": sfault}, "a")
    src_s = make_source(ctx_s, "s0", mats(case["items"]), {"fault": sfault}, "s")
    if case["key"] is not None:
        spec = {"kind": "table", "fl": case["keyfl"], "fault": kfault}
        key_a = Fn(ctx_a, "key", spec, mats(case["key"]), "a").callable
        key_s = Fn(ctx_s, "key", spec, mats(case["key"]), "s").callable
        gb_a, gb_s = a.groupby(src_a.obj, key_a), itertools.groupby(src_s.obj, key_s)
    else:
        gb_a, gb_s = a.groupby(src_a.obj), itertools.groupby(src_s.obj)
    flags = {"stale": False, "partial": False}

    async def history():
        nonlocal gb_a, gb_s
        groups_a, groups_s = [], []
        closed = set()
        taken_from_current = 0
        for step, op in enumerate(case["ops"]):
            if op[0] in ("gb", "reiter") and gb_a is None:
                continue  # (the groupby object was dropped)
            if op[0] == "gb":
                try:
                    ka, ga = await gb_a.__anext__()
                    got = ("group", sig(ka))
                except StopAsyncIteration:
                    got, ga = ("stop",), None
                except Exception as exc:
                    got, ga = ("raise", type(exc).__name__, planned_name(ctx_a, exc)), None
                try:
                    ks, gs = next(gb_s)
                    want = ("group", sig(ks))
                except StopIteration:
                    want, gs = ("stop",), None
                except Exception as exc:
                    want, gs = ("raise", type(exc).__name__, planned_name(ctx_s, exc)), None
                if got != want:
                    return ("groupby-advance-differs", f"step {step}: async={got} itertools={want}")
                if got[0] == "raise" and not (fault and fault[0] == "key"):
                    return None
                # (a key function that failed for one item of a run that is being skipped: that item is dropped, and
                #  an advance that is tried again goes on skipping - the run stays one run)
                if got[0] == "raise":
                    continue
                if ga is not None:
                    if groups_a and taken_from_current >= 1:
                        flags["partial"] = True
                    groups_a.append(ga)
                    groups_s.append(gs)
                    taken_from_current = 0
            elif op[0] == "abandon":
                # an advance of the groupby / a poll of a group that is only REQUESTED - the awaitable is made, never
                # started, and thrown away (a task cancelled before its first step): nothing has happened
                target = gb_a if (op[1] % 2 == 0 or not groups_a) else groups_a[op[1] % len(groups_a)]
                if target is not None and not (target is not gb_a and (op[1] % len(groups_a)) in closed):
                    never_started = target.__anext__()
                    if hasattr(never_started, "close"):
                        never_started.close()
                    del never_started
            elif op[0] == "drop-groupby":
                # the consumer keeps only the groups (``key, group = await anext(groupby(...))``): a group goes on
                # working without anybody holding the groupby object, as an itertools group does
                if groups_a and gb_a is not None:
                    gb_a = gb_s = None  # (reference counting is enough to let go of whatever only the groupby held)
            elif op[0] == "reiter":
                # the consumer starts another loop over the same groupby / the same group (header first, then the
                # rest): asking an iterator for its iterator changes nothing
                gb_a2, gb_s2 = gb_a.__aiter__(), iter(gb_s)
                if gb_a2 is not gb_a:
                    return ("aiter-of-the-groupby-is-another-object", f"step {step}")
                if groups_a:
                    i = op[1] % len(groups_a)
                    if i not in closed and groups_a[i].__aiter__() is not groups_a[i]:
                        return ("aiter-of-a-group-is-another-object", f"step {step} group {i}")
            elif op[0] == "close-group":
                # itertools groups cannot be closed; closing a STALE asyncstdlib group must change nothing
                if len(groups_a) >= 2:
                    i = op[1] % (len(groups_a) - 1)
                    await groups_a[i].aclose()
                    flags["stale"] = True
            elif op[0] == "close-current":
                # ... and closing the CURRENT group (what every tool does with the iterator it was given) is just the
                # consumer losing interest in it: the rest of its run is skipped by the next advance, as if dropped
                if groups_a:
                    await groups_a[-1].aclose()
                    closed.add(len(groups_a) - 1)
                    if taken_from_current >= 1:
                        flags["partial"] = True
            else:
                if not groups_a:
                    continue
                i = op[1] % len(groups_a)
                if i in closed:
                    continue
                if i != len(groups_a) - 1:
                    flags["stale"] = True
                try:
                    got = ("item", sig(await groups_a[i].__anext__()))
                except StopAsyncIteration:
                    got = ("stop",)
                except Exception as exc:
                    got = ("raise", type(exc).__name__, planned_name(ctx_a, exc))
                try:
                    want = ("item", sig(next(groups_s[i])))
                except StopIteration:
                    want = ("stop",)
                except Exception as exc:
                    want = ("raise", type(exc).__name__, planned_name(ctx_s, exc))
                if got != want:
                    return ("group-item-differs", f"step {step} group {i} of {len(groups_a)}: "
                            f"async={got} itertools={want}")
                if got[0] == "raise" and fault and fault[0] != "key":
                    return None
                # (a key function that failed for one item works again for the next: the group goes on; and so it
                #  does after a poll in which comparing two keys failed - the group is asked again like its
                #  itertools counterpart)
                if i == len(groups_a) - 1 and got[0] == "item":
                    taken_from_current += 1
        return None

    with loop_mode(ctx_a, "hooks"):
        outcome = run(ctx_a, history())
        problem = expect_return(outcome, "C16/history")
        close_orphans(ctx_a)
    if problem:
        raise Violation(f"{case.get('prop', 'C16')}/{problem[0]}", f"{problem[1]} fault={fault}",
                        case=case if fault else None)
    nt = (flags["stale"] or flags["partial"]) and len(case["items"]) >= 3
    return {"evaluations": 1, "nontrivial": ["x"] if nt else [],
            "labels": {k: 1 for k, v in flags.items() if v}}


@st.composite
def long_run_histories(draw, tier):
    """runs far longer than any plausible recursion / buffering threshold, skipped or only partly consumed"""
    runs = draw(st.lists(st.sampled_from([1, 3, 1100, 1100, 2300]), min_size=2, max_size=4))
    items, uid = [], 0
    for r, length in enumerate(runs):
        for _ in range(length):
            items.append(["I", r % 3 if len(runs) > 3 else r, uid])
            uid += 1
    ops = []
    for _ in range(len(runs) + 1):
        ops.append(["gb"])
        for _ in range(draw(st.sampled_from([0, 0, 1, 2]))):
            ops.append(["group", draw(st.integers(0, 6))])
    return {"items": items, "key": None, "keyfl": "def", "fl": draw(st.sampled_from(["list", "iter", "agen", "aclass"])),
            "ops": ops}


def shards(tier):
    return [Shard("long-runs", check, strategy=long_run_histories(tier), n=40, nontrivial=lambda c: False,
                  thorough_mult=10)] + [Shard(f"histories-{i}", check, strategy=histories(tier), n=1500, nontrivial=lambda c: False,
                  thorough_mult=25) for i in range(8)]
