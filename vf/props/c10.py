"""C10 - lru_cache equals functools.lru_cache over every sequential call history."""
import functools
from collections import OrderedDict

from hypothesis import strategies as st

from ..runner import Shard, Violation
from ..core import expect_return
from ..driver import Ctx, run
from .. import env

env.setup()
import asyncstdlib as a  # noqa: E402

PROPERTY = "C10"
LEVEL = "exploration"
RULE = (
    "Model-based histories: for each configuration (maxsize in {None, -1, 0, 1..5, default 128}; typed; bare / "
    "parenthesised decorator / cache(); plain function, method on two instances, classmethod, staticmethod) "
    "Hypothesis draws up to 40 operations from {call with positional/keyword arguments in a generated keyword "
    "order over 0,1,2,1.0,2.0,True,False,None,'a','1',(1,),(1.0,),(1,2), an unhashable list and a value that makes "
    "the wrapped function fail; cache_clear; cache_info; cache_parameters; cache_discard(pattern)}. The same "
    "history is applied to functools.lru_cache around the equivalent plain function and to a 20-line LRU model "
    "(OrderedDict + functools._make_key). After EVERY operation: same result or exception type, identical "
    "invocation log of the wrapped function, equal cache_info() tuple and cache_parameters(); functools is the "
    "oracle while no discard happened (and cross-checks the model on that prefix), the model afterwards. "
    "Non-trivial: an eviction after a hit changed the recency order, or two equal-but-not-identical patterns "
    "(1 / 1.0 / True, keyword order) were issued, or a discard removed an existing entry. Stacked shard: a cache "
    "of size m stacked on a cache of size n of the same function, calls and cache_clear on either level, compared "
    "with the same stack of functools caches (results, invocation log, cache_info of BOTH levels after every step; "
    "non-trivial: both levels served a hit)."
)
ASSUMPTIONS = [
    "CPython 3.12 functools.lru_cache and functools._make_key define argument-pattern identity",
    "sequential awaits only (overlap is C11)",
]

NAN = float("nan")  # ONE object: the very same NaN passed again is the same pattern for functools
VALUES = [0, 1, 2, 1.0, 2.0, True, False, None, "a", "1", (1,), (1.0,), (1, 2), "LIST", "boom", "NAN",
          # positional values that look like a keyword item: f(("a", 1)) is not f(a=1)
          ("a", 1), ("b", 1), ("a", 2),
          # transparent stand-ins: equal to and hashing like 1 / 1.0, and reporting that value's class via __class__
          "REF1", "REF1.0",
          # a call during which the wrapped function empties its own cache (a reload hook): the result of that very
          # call is stored afterwards, as functools does
          "clear!",
          # a call during which the wrapped function calls the cache AGAIN with the very same arguments (a retry / a
          # re-entrant lookup): the inner call finishes first and is the one that gets stored
          "again!",
          # a float whose one-argument call key and a plain int argument have the SAME hash (f(1.5) and
          # f(hash((1.5,))): different calls that meet in one hash bucket)
          "HALF", "COLLIDE"]


class _Ref:
    """a proxy for a value: type(ref) is _Ref, ref.__class__ is the class of the value (like a lazy reference or a
    spec'd mock); for a typed cache the TYPE counts, as it does for functools"""

    def __init__(self, value):
        self._value = value

    __class__ = property(lambda self: type(self._value))

    def __eq__(self, other):
        return self._value == other

    def __hash__(self):
        return hash(self._value)

    def __repr__(self):
        return f"<ref to {self._value!r}>"


_REFS = {"REF1": _Ref(1), "REF1.0": _Ref(1.0)}
# the first of 0.5, 1.5, 2.5, ... whose 1-tuple hash is a value an int can hash to (|h| < 2**61 - 1): 1.5 on CPython 3.12
_HALF = next((k + 0.5 for k in range(200) if abs(hash((k + 0.5,))) < 2 ** 61 - 1), 1.5)
_REFS["HALF"] = _HALF
_REFS["COLLIDE"] = hash((_HALF,))


def _val(v):
    if isinstance(v, str) and v == "NAN":
        return NAN
    if isinstance(v, str) and v in _REFS:
        return _REFS[v]
    return [] if isinstance(v, str) and v == "LIST" else v


# indexes into VALUES; the confusable values 1 / 1.0 / True / (1,) / (1.0,) are over-weighted
ARG = st.one_of(st.sampled_from(range(len(VALUES))), st.sampled_from([1, 3, 5, 10, 11, 1, 16, 17, 19, 20, 21, 23, 24, 23, 24, 22]))
CALL = st.tuples(st.lists(ARG, max_size=2), st.lists(st.tuples(st.sampled_from(["a", "b", "self", "key"]), ARG), max_size=2,
                                                     unique_by=lambda t: t[0]))


def _value(i):
    """an index into VALUES, or (from 10000 on) a plain int of its own: the many distinct arguments of a 'fill'"""
    return i if i >= 10000 else _val(VALUES[i])


def _expand_fills(ops):
    """["fill", inst, first, count] stands for `count` calls f(first), f(first + 1), ... with distinct ints"""
    out = []
    for op in ops:
        if op[0] == "fill":
            out.extend(["call", op[1], [[10000 + op[2] + j], []]] for j in range(op[3]))
        else:
            out.append(op)
    return out


BIG_SIZES = [2 ** 63 - 1, 2 ** 31, 2 ** 31 - 1, 1000]


@st.composite
def large_histories(draw, tier):
    """caches of 500-1100 entries that are filled beyond their bound, and bounds nobody can reach (sys.maxsize):
    evictions one at a time, statistics and parameters must not depend on the SIZE of the bound"""
    maxsize = draw(st.sampled_from([511, 512, 513, 600, 1023, 1024, 1025] + BIG_SIZES[:3]))
    big = maxsize > 2000
    count = draw(st.integers(3, 40)) if big else maxsize + draw(st.integers(0, 3))
    ops = [["fill", 0, 0, count], ["info", 0]]
    late = st.one_of(st.integers(0, 4), st.integers(max(count - 3, 0), count + 2))
    for _ in range(draw(st.integers(3, 12))):
        ops.append(draw(st.one_of(
            late.map(lambda j: ["call", 0, [[10000 + j], []]]),
            late.map(lambda j: ["call", 0, [[10000 + j], []]]),
            st.just(["info", 0]),
            late.map(lambda j: ["discard", 0, [[10000 + j], []]]),
            st.integers(1, 3).map(lambda k: ["fill", 0, count + 10, k]))))
    ops.append(["info", 0])
    return {"kind": "function", "maxsize": maxsize, "typed": draw(st.booleans()), "fn_form": "async",
            "eq_instances": False, "ops": ops}


@st.composite
def histories(draw, kind, tier):
    # "direct": the function is passed as first argument together with typed (lru_cache(fn, typed=...))
    maxsize = draw(st.sampled_from(["bare", "cache", "direct", None, -1, 0, 1, 2, 3, 4, 5, 128, 1, 2, 3, 2] + BIG_SIZES))
    typed = draw(st.booleans()) if maxsize not in ("bare", "cache") else False
    # a small pool of call patterns per history makes hits, evictions and equal-but-not-identical
    # patterns frequent; patterns outside the pool still occur
    call = CALL
    if kind in ("method", "classmethod"):
        # (a keyword named like the wrapped function's own first parameter is the caller's error everywhere)
        call = CALL.map(lambda c: (c[0], [(("other" if k in ("self", "cls") else k), v) for k, v in c[1]]))
    pool = draw(st.lists(call, min_size=2, max_size=6))
    if draw(st.integers(0, 3)) == 0:
        # equal values of different types in SWAPPED places: f(1, 1.0) and f(1.0, 1) (and as keyword values) are the
        # same call for an untyped cache and different calls for a typed one
        x, y = draw(st.sampled_from([(1, 3), (1, 5), (3, 5), (0, 6), (2, 4), (1, 19), (3, 20)]))  # indexes into VALUES
        pool += [([x, y], []), ([y, x], [])] if draw(st.booleans()) else [([], [("a", x), ("b", y)]), ([], [("a", y), ("b", x)])]
    if draw(st.integers(0, 3)) == 0:
        # the same keywords in another order: two different calls for functools (and the library)
        x, y = draw(st.sampled_from([(1, 2), (0, 1), (1, 3), (8, 9)]))
        pool += [([], [("a", x), ("b", y)]), ([], [("b", y), ("a", x)])]
    if draw(st.integers(0, 4)) == 0:
        pool += [([23], []), ([24], [])]  # f(0.5-ish) and f(the int its key hashes to): one hash bucket, two calls
    pick = st.one_of(st.sampled_from(pool), st.sampled_from(pool), st.sampled_from(pool), call)
    op = st.one_of(
        st.tuples(st.just("call"), st.integers(0, 1), pick),
        st.tuples(st.just("call"), st.integers(0, 1), pick),
        st.tuples(st.just("call"), st.integers(0, 1), pick),
        st.tuples(st.just("call"), st.integers(0, 1), pick),
        st.tuples(st.just("call"), st.integers(0, 1), pick),
        st.tuples(st.just("call"), st.integers(0, 1), pick),
        st.tuples(st.just("info"), st.integers(0, 1)),
        st.tuples(st.just("clear"), st.integers(0, 1)),
        st.tuples(st.just("discard"), st.integers(0, 1), pick),
        # (method kind) instance 1 is replaced by a shallow copy of instance 0 - a new object with its own identity
        st.tuples(st.just("copy"), st.just(0)),
        # ANOTHER function decorated with the very same decorator object is called: its cache is its own
        st.tuples(st.just("sibling"), st.just(0), pick),
    )
    ops = draw(st.lists(op, min_size=6, max_size=40 if tier == "quick" else 60))
    return {"kind": kind, "maxsize": maxsize, "typed": typed,
            "fn_form": draw(st.sampled_from(["async", "async", "def-eager", "object"])),
            "eq_instances": draw(st.sampled_from([False, False, True, "unhashable"])) if kind == "method" else False,
            "ops": [[o[0], o[1]] + ([[list(o[2][0]), [list(p) for p in o[2][1]]]] if len(o) > 2 else [])
                    for o in ops]}


class _EqAllResult:
    def __eq__(self, other):
        return True

    def __ne__(self, other):
        return False

    def __hash__(self):
        return 1

    def __repr__(self):
        return "<equal to everything>"


class _NoEqResult:
    def __eq__(self, other):
        raise ValueError("the truth value of a comparison with this result is ambiguous")

    __ne__ = __eq__
    __hash__ = None

    def __repr__(self):
        return "<not comparable>"


_EQ_ALL, _NO_EQ = _EqAllResult(), _NoEqResult()


def result_for(args, kwargs, n):
    """what the wrapped function returns at its n-th invocation: mostly a fresh tuple, but falsy
    results and None for some patterns (a cache must store those like anything else)"""
    first = (list(args) + list(kwargs.values()) + ["-"])[0]
    if first is None:
        return None
    if first == 2 and not isinstance(first, bool):
        return 0
    if first == "a":
        return ""
    if first == "1":
        return _EQ_ALL  # a result that claims to be equal to everything (like mock.ANY)
    if first == (1, 2):
        return _NO_EQ   # a result that cannot be compared at all (like an array)
    return ("result", n)


class Model:
    """reference LRU used once cache_discard (no stdlib counterpart) was applied"""

    def __init__(self, maxsize, typed):
        self.maxsize, self.typed = maxsize, typed
        self.cache = OrderedDict()
        self.hits = self.misses = 0

    def lookup(self, args, kwargs):
        if self.maxsize == 0:
            # a disabled cache never builds a key (unhashable arguments are fine)
            self.misses += 1
            return None, False
        key = functools._make_key(args, kwargs, self.typed)
        hash(key)
        if key in self.cache:
            self.hits += 1
            self.cache.move_to_end(key)
            return key, True
        self.misses += 1
        return key, False

    def store(self, key, value):
        if self.maxsize == 0 or key in self.cache:
            return
        if self.maxsize is not None and len(self.cache) >= self.maxsize:
            self.cache.popitem(last=False)
        self.cache[key] = value

    def discard(self, args, kwargs):
        if self.maxsize == 0:
            return
        key = functools._make_key(args, kwargs, self.typed)
        self.cache.pop(key, None)

    def clear(self):
        self.cache.clear()
        self.hits = self.misses = 0

    def info(self):
        return (self.hits, self.misses, self.maxsize, len(self.cache))


def build_targets(case, extra=None):
    """returns (async callables per instance, sync callables per instance, logs, normalised maxsize)"""
    kind, maxsize, typed = case["kind"], case["maxsize"], case["typed"]
    alog, slog = [], []
    targets = {}  # side -> the wrappers, for a body that works on its own cache

    def _ret(afns_, sfns_, *rest):
        targets["a"], targets["s"] = afns_, sfns_
        return (afns_, sfns_) + rest

    def body(log, args, kwargs):
        log.append((args, tuple(kwargs.items())))
        if any(isinstance(x, str) and x == "clear!" for x in list(args) + list(kwargs.values())):
            (targets["a"] if log is alog else targets["s"])[0].cache_clear()
        if any(x == "boom" and isinstance(x, str) for x in list(args) + list(kwargs.values())):
            raise ValueError("boom")
        logged_args = args[1:] if (args and isinstance(args[0], str) and args[0].startswith("inst")) else args
        return result_for(logged_args, kwargs, len(log))

    if maxsize == "bare":
        adeco, sdeco, norm = a.lru_cache, functools.lru_cache, 128
    elif maxsize == "cache":
        adeco, sdeco, norm = a.cache, functools.cache, None
    elif maxsize == "direct":
        adeco = lambda fn: a.lru_cache(fn, typed=typed)  # noqa: E731
        sdeco = lambda fn: functools.lru_cache(fn, typed=typed)  # noqa: E731
        norm = 128
    else:
        adeco = a.lru_cache(maxsize=maxsize, typed=typed)
        sdeco = functools.lru_cache(maxsize=maxsize, typed=typed)
        norm = maxsize if maxsize is None else max(maxsize, 0)

    if extra is not None:
        sib_calls = [0, 0]

        def sib_body(k, args, kwargs):
            sib_calls[k] += 1
            if any(x == "boom" and isinstance(x, str) for x in list(args) + list(kwargs.values())):
                raise ValueError("boom")
            return ("sibling", sib_calls[k])

        @adeco
        async def asib(*args, **kwargs):
            return sib_body(0, args, kwargs)

        @sdeco
        def ssib(*args, **kwargs):
            return sib_body(1, args, kwargs)

        extra["sibling"] = (asib, ssib)

    if kind == "function" and case.get("fn_form") == "def-eager":
        # "any other callable that returns an awaitable": a plain def that does its work - and fails, if it is going
        # to - when it is CALLED, and returns an awaitable that only delivers the result
        @adeco
        def afn(*args, **kwargs):
            result = body(alog, args, kwargs)

            async def deliver():
                return result

            return deliver()

        @sdeco
        def sfn(*args, **kwargs):
            return body(slog, args, kwargs)

        return _ret([afn, afn], [sfn, sfn], alog, slog, norm, 0)
    if kind == "function":
        depth = {"a": 0, "s": 0}

        def _again(args, kwargs):
            # (bounded caches only: for the unbounded one functools itself is of two minds - its bounded wrapper
            #  keeps the result of the call that finished FIRST, like the library, its unbounded one overwrites it)
            return norm is not None and any(isinstance(x, str) and x == "again!"
                                            for x in list(args) + list(kwargs.values()))

        @adeco
        async def afn(*args, **kwargs):
            if _again(args, kwargs) and not depth["a"]:
                depth["a"] += 1
                try:
                    await afn(*args, **kwargs)
                    await afn(1)  # ... and looks up something else, too, before it gets to its own work
                finally:
                    depth["a"] -= 1
            return body(alog, args, kwargs)

        @sdeco
        def sfn(*args, **kwargs):
            if _again(args, kwargs) and not depth["s"]:
                depth["s"] += 1
                try:
                    sfn(*args, **kwargs)
                    sfn(1)
                finally:
                    depth["s"] -= 1
            return body(slog, args, kwargs)

        return _ret([afn, afn], [sfn, sfn], alog, slog, norm, 0)
    if kind == "method":
        class Falsy:
            """the second instance is falsy (empty container-like): binding must not depend on truthiness"""

            def __bool__(self):
                return self.tag != "inst1"

            if case.get("eq_instances") == "unhashable":
                # instances with __eq__ and no __hash__ (a plain dataclass): they cannot be part of a cache key -
                # every call through such an instance fails with TypeError, for functools and for the library
                def __eq__(self, other):
                    return type(other) is type(self)

                __hash__ = None
            elif case.get("eq_instances"):
                # instances with VALUE equality: equal (one cache key, as for functools) but not the same object
                def __eq__(self, other):
                    return type(other) is type(self)

                def __hash__(self):
                    return 11

        class _AsyncObj:
            """the cached callable is an OBJECT (no __get__ of its own): the cache in the class body binds the
            instance all the same, as a functools cache does"""

            async def __call__(self_obj, self, /, *args, **kwargs):  # noqa: N805
                return body(alog, (self.tag,) + args, kwargs)

        class _SyncObj:
            def __call__(self_obj, self, /, *args, **kwargs):  # noqa: N805
                return body(slog, (self.tag,) + args, kwargs)

        class A(Falsy):
            @adeco
            async def m(self, *args, **kwargs):
                return body(alog, (self.tag,) + args, kwargs)

        class S(Falsy):
            @sdeco
            def m(self, *args, **kwargs):
                return body(slog, (self.tag,) + args, kwargs)

        if case.get("fn_form") == "object":
            A.m, S.m = adeco(_AsyncObj()), sdeco(_SyncObj())
        ai, si = [A(), A()], [S(), S()]
        for k in (0, 1):
            ai[k].tag = si[k].tag = f"inst{k}"

        def recopy():
            import copy

            for pair in (ai, si):
                pair[1] = copy.copy(pair[0])
                pair[1].tag = "inst1"
            return ai[1].m, si[1].m

        holder = [ai[0].m, ai[1].m]
        holder_s = [si[0].m, si[1].m]
        holder.append(recopy)
        return _ret(holder, holder_s, alog, slog, norm, 1)
    if kind == "classmethod":
        class A:
            @classmethod
            @adeco
            async def m(cls, *args, **kwargs):
                return body(alog, args, kwargs)

        class S:
            @classmethod
            @sdeco
            def m(cls, *args, **kwargs):
                return body(slog, args, kwargs)

        return _ret([A.m, A().m], [S.m, S().m], alog, slog, norm, 1)
    class A:
        @staticmethod
        @adeco
        async def m(*args, **kwargs):
            return body(alog, args, kwargs)

    class S:
        @staticmethod
        @sdeco
        def m(*args, **kwargs):
            return body(slog, args, kwargs)

    return _ret([A.m, A().m], [S.m, S().m], alog, slog, norm, 0)


class LoopSwitch:
    """awaited by a history between two operations (C17 only): the driver gets the chance to go on under ANOTHER
    event loop - none at all, or a fresh asyncio loop"""

    def __await__(self):
        yield self


def check(case, drive=None):
    ctx = Ctx("a")
    extra = {}
    afns, sfns, alog, slog, norm, bound = build_targets(case, extra)
    asib, ssib = extra["sibling"]
    model = Model(norm, case["typed"])
    mlog = []
    discarded = False
    stats = {"evicted_after_hit": False, "equal_not_identical": False, "discard_hit": False}
    seen_keys = {}

    inst_ids = [0, 1]
    mdepth = [0]

    def model_call(inst, args, kwargs):
        margs = ((("self", inst_ids[inst] if not case.get("eq_instances") else 0),) if case["kind"] == "method" else
                 (("cls",),) if case["kind"] == "classmethod" else ()) + args
        if case.get("eq_instances") == "unhashable" and model.maxsize != 0:
            return ("raise", "TypeError")  # (a disabled cache builds no key: there the call goes through)
        try:
            key, hit = model.lookup(margs, kwargs)
        except TypeError:
            return ("raise", "TypeError")
        if hit:
            return ("return", model.cache[key])
        if case["kind"] == "function" and case.get("fn_form", "async") != "def-eager" and norm is not None \
                and not mdepth[0] and any(
                isinstance(x, str) and x == "again!" for x in list(args) + list(kwargs.values())):
            mdepth[0] += 1
            try:
                nested = model_call(inst, args, kwargs)
                if nested[0] != "raise":
                    model_call(inst, (1,), {})
            finally:
                mdepth[0] -= 1
            if nested[0] == "raise":
                return nested  # (the inner call's failure leaves the outer call before its body runs)
        logged = ((f"inst{inst}",) + args) if case["kind"] == "method" else args
        mlog.append((logged, tuple(kwargs.items())))
        if any(isinstance(x, str) and x == "clear!" for x in list(args) + list(kwargs.values())):
            model.clear()
        if any(x == "boom" and isinstance(x, str) for x in list(args) + list(kwargs.values())):
            return ("raise", "ValueError")
        value = result_for(args, kwargs, len(mlog))
        before = len(model.cache)
        model.store(key, value)
        if model.maxsize and before == model.maxsize and model.hits:
            stats["evicted_after_hit"] = True
        return ("return", value)

    async def history():
        nonlocal discarded
        for step, op in enumerate(_expand_fills(case["ops"])):
            name, inst = op[0], op[1]
            if name == "switch-loop":
                if drive is not None:
                    await LoopSwitch()
                continue
            if name == "copy":
                if case["kind"] == "method" and not case.get("eq_instances"):
                    afns[1], sfns[1] = afns[2]()
                    # the copy is a NEW instance: nothing is cached for it yet (entries of the instance it replaces
                    # stay in the cache, unreachable, until they are evicted)
                    inst_ids[1] = max(inst_ids) + 1
                continue
            afn, sfn = afns[inst], sfns[inst]
            if name in ("call", "discard", "sibling"):
                args = tuple(_value(i) for i in op[2][0])
                kwargs = {k: _value(i) for k, i in op[2][1]}
                sig_key = repr((args, sorted(kwargs.items())))
                eq_key = None
                try:
                    eq_key = hash((args, tuple(sorted(kwargs.items()))))
                except TypeError:
                    pass
                if eq_key is not None:
                    if eq_key in seen_keys and seen_keys[eq_key] != sig_key:
                        stats["equal_not_identical"] = True
                    seen_keys.setdefault(eq_key, sig_key)
            if name == "sibling":
                try:
                    got = ("return", await asib(*args, **kwargs))
                except Exception as exc:
                    got = ("raise", type(exc).__name__)
                try:
                    want = ("return", ssib(*args, **kwargs))
                except Exception as exc:
                    want = ("raise", type(exc).__name__)
                if got != want and not discarded:
                    return ("sibling-function-result-differs", f"step {step} {op}: async={got} reference={want}")
                # (the subject's own statistics, compared below, must not have moved)
            if name == "call":
                try:
                    got = ("return", await afn(*args, **kwargs))
                except Exception as exc:
                    got = ("raise", type(exc).__name__)
                want_model = model_call(inst, args, kwargs)
                if not discarded:
                    try:
                        want = ("return", sfn(*args, **kwargs))
                    except Exception as exc:
                        want = ("raise", type(exc).__name__)
                    if want != want_model or slog != mlog:
                        raise RuntimeError(f"LRU model disagrees with functools at step {step}: "
                                           f"{want} vs {want_model}")
                else:
                    want = want_model
                if got != want:
                    return ("call-result-differs", f"step {step} {op}: async={got} reference={want}")
                if alog != mlog:
                    return ("wrapped-function-invoked-differently",
                            f"step {step} {op}: async log={alog[-3:]} reference log={mlog[-3:]}")
            elif name == "clear":
                afn.cache_clear()
                model.clear()
                if not discarded:
                    sfn.cache_clear()
            elif name == "discard":
                try:
                    margs = ((("self", inst_ids[inst] if not case.get("eq_instances") else 0),) if case["kind"] == "method" else
                             (("cls",),) if case["kind"] == "classmethod" else ()) + args
                    before = len(model.cache)
                    try:
                        if case.get("eq_instances") == "unhashable" and model.maxsize != 0:
                            raise TypeError("unhashable instance")
                        model.discard(margs, kwargs)
                        want = None
                    except TypeError:
                        want = "TypeError"
                    if len(model.cache) < before:
                        stats["discard_hit"] = True
                    try:
                        afn.cache_discard(*args, **kwargs)
                        got = None
                    except TypeError:
                        got = "TypeError"
                    if got != want:
                        return ("discard-raises-differently", f"step {step}: {got} vs {want}")
                finally:
                    discarded = True
            info = tuple(afn.cache_info())
            if info != model.info():
                return ("cache_info-differs", f"step {step} {op}: async={info} reference={model.info()}")
            if not discarded and tuple(sfn.cache_info()) != model.info():
                raise RuntimeError(f"LRU model disagrees with functools info at step {step}")
            handed_out = afn.cache_parameters()
            params = dict(handed_out)
            if params != {"maxsize": norm, "typed": case["typed"]}:
                return ("cache_parameters-differ", f"{params}")
            handed_out["maxsize"] = "changed by the caller"  # the caller's copy: functools builds a new dict per call
            if not discarded and dict(sfn.cache_parameters()) != params:
                return ("cache_parameters-differ", f"{params} vs functools {sfn.cache_parameters()}")
        return None

    outcome = run(ctx, history()) if drive is None else drive(history())
    problem = expect_return(outcome, "C10/history")
    if ctx.suspensions:
        raise Violation("C10/suspended-without-user-awaitable", f"{ctx.suspensions}")
    if problem:
        raise Violation(f"C10/{case['kind']}/{problem[0]}",
                        f"{problem[1]} maxsize={case['maxsize']} typed={case['typed']}")
    return {"evaluations": 1, "nontrivial": ["x"] if any(stats.values()) else [],
            "labels": {k: 1 for k, v in stats.items() if v}}


@st.composite
def stacked_histories(draw, tier):
    """a cache stacked on another cache of the same function (two-level caching)"""
    sizes = st.sampled_from([None, 0, 1, 2, 3, 4, 128])
    pool = draw(st.lists(CALL, min_size=2, max_size=6))
    pick = st.one_of(st.sampled_from(pool), st.sampled_from(pool), CALL)
    op = st.one_of(st.tuples(st.just("call"), st.just(0), pick), st.tuples(st.just("call"), st.just(0), pick),
                   st.tuples(st.just("call"), st.just(0), pick), st.tuples(st.just("call"), st.integers(0, 1), pick),
                   st.tuples(st.just("clear"), st.integers(0, 1)))
    ops = draw(st.lists(op, min_size=6, max_size=40))
    return {"kind": "stacked", "outer": draw(sizes), "inner": draw(sizes),
            "typed": [draw(st.booleans()), draw(st.booleans())],
            "ops": [[o[0], o[1]] + ([[list(o[2][0]), [list(p) for p in o[2][1]]]] if len(o) > 2 else [])
                    for o in ops]}


def check_stacked(case):
    """differential against functools: level 0 is the outer cache, level 1 the inner one"""
    ctx = Ctx("a")
    alog, slog = [], []

    def body(log, args, kwargs):
        log.append((args, tuple(kwargs.items())))
        if any(x == "boom" and isinstance(x, str) for x in list(args) + list(kwargs.values())):
            raise ValueError("boom")
        return result_for(args, kwargs, len(log))

    async def afn(*args, **kwargs):
        return body(alog, args, kwargs)

    def sfn(*args, **kwargs):
        return body(slog, args, kwargs)

    a_inner = a.lru_cache(maxsize=case["inner"], typed=case["typed"][1])(afn)
    a_outer = a.lru_cache(maxsize=case["outer"], typed=case["typed"][0])(a_inner)
    s_inner = functools.lru_cache(maxsize=case["inner"], typed=case["typed"][1])(sfn)
    s_outer = functools.lru_cache(maxsize=case["outer"], typed=case["typed"][0])(s_inner)
    alev, slev = [a_outer, a_inner], [s_outer, s_inner]
    both_hit = [False]

    async def history():
        for step, op in enumerate(case["ops"]):
            name, level = op[0], op[1]
            if name == "call":
                args = tuple(_value(i) for i in op[2][0])
                kwargs = {k: _value(i) for k, i in op[2][1]}
                try:
                    got = ("return", await alev[level](*args, **kwargs))
                except Exception as exc:
                    got = ("raise", type(exc).__name__)
                try:
                    want = ("return", slev[level](*args, **kwargs))
                except Exception as exc:
                    want = ("raise", type(exc).__name__)
                if got != want:
                    return ("call-result-differs", f"step {step} {op}: async={got} reference={want}")
                if alog != slog:
                    return ("wrapped-function-invoked-differently", f"step {step} {op}: {alog[-3:]} vs {slog[-3:]}")
            else:
                alev[level].cache_clear()
                slev[level].cache_clear()
            for lv in (0, 1):
                if tuple(alev[lv].cache_info()) != tuple(slev[lv].cache_info()):
                    return ("cache_info-differs", f"step {step} {op} level {lv}: async={tuple(alev[lv].cache_info())} "
                                                  f"reference={tuple(slev[lv].cache_info())}")
            # (functools' update_wrapper copies the inner cache_parameters attribute to the outer wrapper:
            # a stdlib quirk, not compared for the outer level)
            if dict(a_inner.cache_parameters()) != dict(s_inner.cache_parameters()):
                return ("cache_parameters-differ", f"inner {a_inner.cache_parameters()}")
            if dict(a_outer.cache_parameters()) != {"maxsize": case["outer"], "typed": case["typed"][0]}:
                return ("cache_parameters-differ", f"outer {a_outer.cache_parameters()}")
            if s_outer.cache_info().hits and s_inner.cache_info().hits:
                both_hit[0] = True
        return None

    outcome = run(ctx, history())
    problem = expect_return(outcome, "C10/stacked")
    if problem:
        raise Violation(f"C10/stacked/{problem[0]}", f"{problem[1]} outer={case['outer']} inner={case['inner']} "
                                                     f"typed={case['typed']}")
    return {"evaluations": 1, "nontrivial": ["x"] if both_hit[0] else [], "labels": {"stacked_both_levels_hit": int(both_hit[0])}}


def shards(tier):
    out = [Shard("stacked", check_stacked, strategy=stacked_histories(tier), n=500, nontrivial=lambda c: False,
                 thorough_mult=25)]
    out.append(Shard("large-caches", check, strategy=large_histories(tier), n=40, nontrivial=lambda c: True,
                     thorough_mult=10, fuzz=0))
    for kind in ("function", "method", "classmethod", "staticmethod"):
        for i in range(4):
            out.append(Shard(f"{kind}-{i}", check, strategy=histories(kind, tier), n=600,
                             nontrivial=lambda c: False, thorough_mult=25))
    return out
