"""C02 - aggregations return the stdlib result and never alter their inputs."""
from hypothesis import strategies as st

from ..runner import Shard, Violation
from ..tools import AGG_TOOLS
from ..gen import base_case, features
from ..core import expect_return, run_async, run_sync, consumer_view, first_diff, generators_closed_by_tool
from ..values import sig, mat, mats

PROPERTY = "C02"
LEVEL = "exploration"
RULE = (
    "Hypothesis draws, per aggregation (all any sum min max list tuple set dict sorted reduce nlargest "
    "nsmallest), an input of 0-8 items (Items with tied keys, exact mixed numerics, unorderable / "
    "unhashable mixes), given as list, tuple, one-shot iterator, __getitem__ sequence, re-iterable iterable, async "
    "generator or class-based async iterator behind a proxy, with key absent/sync/async (also callable objects with value "
    "equality or without hash), "
    "reverse, default, start/initial (numbers, Items, lists, tuples, an object with a mutating __iadd__), "
    "n from -1 to len+2, dict keywords. Oracle: the stdlib function on a separately materialised copy "
    "(type+value signature, identity of Items via uid, exception type) plus a mutation oracle: every "
    "argument object has the same structural signature after the call as a fresh materialisation, the "
    "default is never passed to key. Non-trivial: a key tie among distinguishable items, or empty input "
    "with default/initial/start, or the stdlib raises, or a mutable start value."
)
ASSUMPTIONS = [
    "CPython 3.12 builtins/functools/heapq are the reference",
    "floats and Fractions are dyadic so all sums are exact, except the 'inexact' profile of sum (known finding sum-float-compensation); no NaN, no partial orders",
    "sum(start=str/bytes) and dict(mapping) are outside the quantifier and not generated",
]


@st.composite
def cases(draw, name, max_len):
    case = draw(base_case(name, max_len=max_len))
    for src in case["srcs"]:
        src["fl"] = draw(st.sampled_from(["list", "iter", "agen", "list", "iter", "agen", "tuple", "tuplesub", "seq",
                                           "reiter", "areiter", "aproxy", "sgen", "sgen"]))
        src["falsy"] = draw(st.integers(0, 3)) == 0  # (class-based flavours only: the object is falsy)
    for spec in case["fns"].values():
        spec["fl"] = draw(st.sampled_from(["def", "async", "def", "async", "eqobj", "unhashobj", "aeqobj"]))
    return case


@st.composite
def cases_large(draw, name):
    """inputs of 12-30 items: heap selection with real replacements, long runs of ties"""
    case = draw(base_case(name, max_len=30, min_len=12))
    for src in case["srcs"]:
        src["fl"] = draw(st.sampled_from(["list", "iter", "agen", "list", "iter", "agen", "tuple", "tuplesub", "seq",
                                           "reiter", "areiter", "aproxy", "sgen", "sgen"]))
        src["falsy"] = draw(st.integers(0, 3)) == 0  # (class-based flavours only: the object is falsy)
    for spec in case["fns"].values():
        spec["fl"] = draw(st.sampled_from(["def", "async", "def", "async", "eqobj", "unhashobj", "aeqobj"]))
    return case


@st.composite
def big_number_cases(draw):
    name = draw(st.sampled_from(["nlargest", "nsmallest", "sum", "sorted", "max", "min"]))
    n_items = draw(st.sampled_from([258, 300, 400]))
    items = [["I", (i * 7) % 5, i] for i in range(n_items)] if name != "sum" else [["i", 1]] * n_items
    case = {"tool": name, "profile": "item", "fns": {}, "params": {}, "plan": [], "close": True,
            "srcs": [{"items": items, "fl": draw(st.sampled_from(["agen", "list", "iter"])), "susp": 0,
                      "csusp": False, "fault": None}]}
    if name in ("nlargest", "nsmallest"):
        case["params"]["n"] = draw(st.sampled_from([256, 257, 258, 299]))
    if name == "sorted":
        case["params"]["reverse"] = draw(st.booleans())
    if name == "sum":
        case["params"]["v"] = {"start": ["i", draw(st.sampled_from([0, 256, 257, 2 ** 62]))]}
    return case


def check(case):
    tool = case["tool"]
    bs = run_sync(case)
    ba, outcome = run_async(case)
    expect_return(outcome, f"C02/{tool}")
    av, sv = consumer_view(ba.ctx.log), consumer_view(bs.ctx.log)
    d = first_diff(av, sv)
    if d is not None:
        _, x, y = d
        if x and y and x[0] == "return" and y[0] == "return":
            kind = "wrong-result"
        elif x and y and x[0] == "raise" and y[0] == "raise":
            kind = "wrong-exception"
        else:
            kind = "raises-vs-returns"
        if tool == "sum" and kind == "wrong-result" and case.get("profile") == "inexact":
            kind = "inexact-float-sum-differs"
        raise Violation(f"C02/{tool}/{kind}", f"async={x} stdlib={y}")
    shut = generators_closed_by_tool(ba)
    if shut:
        raise Violation(f"C02/{tool}/closed-the-callers-generator", f"{shut}: the builtin only advances it")
    # mutation oracle
    v = (case.get("params") or {}).get("v") or {}
    for name, vdesc in v.items():
        if isinstance(vdesc, dict):
            fresh = {k: sig(mat(d)) for k, d in vdesc.items()}
            now = {k: sig(x) for k, x in ba.V[name].items()}
        else:
            fresh, now = sig(mat(vdesc)), sig(ba.V[name])
        if fresh != now:
            raise Violation(f"C02/{tool}/mutated-{name}", f"before={fresh} after={now}")
    src = ba.srcs[0] if ba.srcs else None
    if src is not None and case["srcs"][0]["fl"] in ("list", "tuple", "tuplesub"):
        fresh, now = sig(mats(case["srcs"][0]["items"])), sig(list(src.obj))
        if fresh != now:
            raise Violation(f"C02/{tool}/mutated-input", f"before={fresh} after={now}")
    if src is not None and "default" in ba.V and "key" in ba.fns \
            and not any(ba.V["default"] is x for x in src.items):
        # (identity is only meaningful if the default object is not itself an input item,
        #  e.g. the None singleton may legitimately be both)
        default = ba.V["default"]
        for args in ba.fns["key"].seen_args:
            if any(a is default for a in args):
                raise Violation(f"C02/{tool}/key-applied-to-default", "")


# known findings that are excluded by construction once reported (see known_findings.json)
EXCLUSIONS = {
    "sum-float-compensation": lambda case: case["tool"] == "sum" and case.get("profile") == "inexact",
}


def nontrivial(case):
    f = features(case)
    v = (case.get("params") or {}).get("v") or {}
    if f["tie"] and f["max_len"] >= 2:
        return True
    if f["max_len"] == 0 and v:
        return True
    start = v.get("start")
    if start is not None and start[0] in ("l", "A"):
        return True
    events = consumer_view(run_sync(case).ctx.log)
    return bool(events) and events[-1][0] == "raise"


def classify(case):
    f = features(case)
    out = [f"input-{case['srcs'][0]['fl']}"] if case["srcs"] else ["input-omitted"]
    if f["tie"]:
        out.append("tie")
    if f["max_len"] == 0:
        out.append("empty-input")
    if case["fns"]:
        out.append("key/fn-" + next(iter(case["fns"].values()))["fl"])
    events = consumer_view(run_sync(case).ctx.log)
    if events and events[-1][0] == "raise":
        out.append("stdlib-raises")
    return out


def shards(tier):
    large = [Shard(f"large-{name}", check, strategy=cases_large(name), n=400, nontrivial=nontrivial,
                   classify=classify, thorough_mult=15)
             for name in ("nlargest", "nsmallest", "sorted", "min", "max", "reduce", "sum")]
    large += [Shard(f"big-numbers-{i}", check, strategy=big_number_cases(), n=15, nontrivial=lambda c: True,
                    thorough_mult=8) for i in range(2)]
    return large + [
        Shard(name, check, strategy=cases(name, 8 if tier == "quick" else 12), n=1200,
              nontrivial=nontrivial, classify=classify, thorough_mult=25)
        for name in AGG_TOOLS
    ]
