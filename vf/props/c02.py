"""C02 - aggregations return the stdlib result and never alter their inputs."""
from hypothesis import strategies as st

from ..runner import Shard, Violation
from ..tools import AGG_TOOLS
from ..gen import base_case, features
from ..core import expect_return, run_async, run_sync, consumer_view, first_diff, generators_closed_by_tool
from ..values import sig, mat, mats

PROPERTY = "C02"
LEVEL = "exploration"
RULE = (
    "Hypothesis draws, per aggregation (all any sum min max list tuple set dict sorted reduce nlargest "
    "nsmallest), an input of 0-8 items (Items with tied keys, exact mixed numerics, unorderable / "
    "unhashable mixes), given as list, tuple, one-shot iterator, __getitem__ sequence, re-iterable iterable, async "
    "generator or class-based async iterator behind a proxy, with key absent/sync/async (also callable objects with value "
    "equality or without hash), "
    "reverse, default, start/initial (numbers, Items, lists, tuples, an object with a mutating __iadd__), "
    "n from -1 to len+2, dict keywords. Oracle: the stdlib function on a separately materialised copy "
    "(type+value signature, identity of Items via uid, exception type) plus a mutation oracle: every "
    "argument object has the same structural signature after the call as a fresh materialisation, the "
    "default is never passed to key. Non-trivial: a key tie among distinguishable items, or empty input "
    "with default/initial/start, or the stdlib raises, or a mutable start value."
)
ASSUMPTIONS = [
    "CPython 3.12 builtins/functools/heapq are the reference",
    "floats and Fractions are dyadic so all sums are exact, except the 'inexact' profile of sum (known finding sum-float-compensation); no NaN; orders may be weak (ties that are not ==: profiles ltonly / ltpure) but not partial",
    "nlargest / nsmallest of a sized argument with n >= len and ties that are not == are excluded after being reported (known finding heap-selection-sized-shortcut)",
    "sum(start=str/bytes) and dict(mapping) are outside the quantifier and not generated",
]


@st.composite
def cases(draw, name, max_len):
    case = draw(base_case(name, max_len=max_len))
    for src in case["srcs"]:
        src["fl"] = draw(st.sampled_from(["list", "iter", "agen", "list", "iter", "agen", "tuple", "tuplesub", "seq",
                                           "reiter", "areiter", "aproxy", "sgen", "sgen", "ringlist", "iter_noasync", "iter_hint0"]))
        src["falsy"] = draw(st.integers(0, 3)) == 0  # (class-based flavours only: the object is falsy)
    for spec in case["fns"].values():
        spec["fl"] = draw(st.sampled_from(["def", "async", "def", "async", "eqobj", "unhashobj", "aeqobj"]))
    if name in ("min", "max", "reduce") and case["fns"] and case["srcs"] and case["srcs"][0]["items"] \
            and draw(st.integers(0, 4)) == 0:
        # the key / function itself appends to the list that is being read: the builtins walk the live list
        # (sorted and the heap selections collect their input first: nothing is claimed for them)
        case["srcs"][0]["fl"] = "list"
        case["srcs"][0]["mutable"] = True
        spec = sorted(case["fns"].items())[0][1]
        spec["grows_source"] = {"at": draw(st.integers(1, len(case["srcs"][0]["items"]))), "key": draw(st.integers(0, 3))}
    return case


@st.composite
def cases_large(draw, name):
    """inputs of 12-30 items: heap selection with real replacements, long runs of ties"""
    case = draw(base_case(name, max_len=30, min_len=12))
    for src in case["srcs"]:
        src["fl"] = draw(st.sampled_from(["list", "iter", "agen", "list", "iter", "agen", "tuple", "tuplesub", "seq",
                                           "reiter", "areiter", "aproxy", "sgen", "sgen", "ringlist", "iter_noasync", "iter_hint0"]))
        src["falsy"] = draw(st.integers(0, 3)) == 0  # (class-based flavours only: the object is falsy)
    for spec in case["fns"].values():
        spec["fl"] = draw(st.sampled_from(["def", "async", "def", "async", "eqobj", "unhashobj", "aeqobj"]))
    return case


@st.composite
def big_number_cases(draw):
    name = draw(st.sampled_from(["nlargest", "nsmallest", "sum", "sorted", "max", "min"]))
    n_items = draw(st.sampled_from([258, 300, 400]))
    items = [["I", (i * 7) % 5, i] for i in range(n_items)] if name != "sum" else [["i", 1]] * n_items
    case = {"tool": name, "profile": "item", "fns": {}, "params": {}, "plan": [], "close": True,
            "srcs": [{"items": items, "fl": draw(st.sampled_from(["agen", "list", "iter"])), "susp": 0,
                      "csusp": False, "fault": None}]}
    if name in ("nlargest", "nsmallest"):
        case["params"]["n"] = draw(st.sampled_from([256, 257, 258, 299]))
    if name == "sorted":
        case["params"]["reverse"] = draw(st.booleans())
    if name == "sum":
        case["params"]["v"] = {"start": ["i", draw(st.sampled_from([0, 256, 257, 2 ** 62]))]}
    return case


def check(case):
    tool = case["tool"]
    bs = run_sync(case)
    ba, outcome = run_async(case)
    expect_return(outcome, f"C02/{tool}")
    av, sv = consumer_view(ba.ctx.log), consumer_view(bs.ctx.log)
    d = first_diff(av, sv)
    if d is not None:
        _, x, y = d
        if x and y and x[0] == "return" and y[0] == "return":
            kind = "wrong-result"
        elif x and y and x[0] == "raise" and y[0] == "raise":
            kind = "wrong-exception"
        else:
            kind = "raises-vs-returns"
        if tool == "sum" and kind == "wrong-result" and case.get("profile") == "inexact":
            kind = "inexact-float-sum-differs"
        if kind == "wrong-result" and _sized_selection_of_unequal_ties(case):
            # (one bucket for both directions: the finding is the missing shortcut, not the tool)
            raise Violation("C02/heap-selection/sized-input-unequal-ties-order-differs", f"async={x} stdlib={y}")
        raise Violation(f"C02/{tool}/{kind}", f"async={x} stdlib={y}")
    shut = generators_closed_by_tool(ba)
    if shut:
        raise Violation(f"C02/{tool}/closed-the-callers-generator", f"{shut}: the builtin only advances it")
    # mutation oracle
    v = (case.get("params") or {}).get("v") or {}
    for name, vdesc in v.items():
        if isinstance(vdesc, list) and vdesc[:1] == ["itemref"]:
            continue  # (one of the items: covered by the comparison of the source's items below)
        if isinstance(vdesc, dict):
            fresh = {k: sig(mat(d)) for k, d in vdesc.items()}
            now = {k: sig(x) for k, x in ba.V[name].items()}
        else:
            fresh, now = sig(mat(vdesc)), sig(ba.V[name])
        if fresh != now:
            raise Violation(f"C02/{tool}/mutated-{name}", f"before={fresh} after={now}")
    src = ba.srcs[0] if ba.srcs else None
    grown = any(f.get("grows_source") for f in case["fns"].values())  # (then the CALLER's callable changed the list)
    if src is not None and case["srcs"][0]["fl"] in ("list", "tuple", "tuplesub") and not grown:
        fresh, now = sig(mats(case["srcs"][0]["items"])), sig(list(src.obj))
        if fresh != now:
            raise Violation(f"C02/{tool}/mutated-input", f"before={fresh} after={now}")
    if src is not None and "default" in ba.V and "key" in ba.fns \
            and not any(ba.V["default"] is x for x in src.items):
        # (identity is only meaningful if the default object is not itself an input item,
        #  e.g. the None singleton may legitimately be both)
        default = ba.V["default"]
        for args in ba.fns["key"].seen_args:
            if any(a is default for a in args):
                raise Violation(f"C02/{tool}/key-applied-to-default", "")


def _sized_selection_of_unequal_ties(case):
    """nlargest / nsmallest of a SIZED argument with n >= len(argument), items that tie under ``<`` without being
    ``==`` (profile 'ltpure'): heapq answers sorted(argument)[:n] there, which keeps such ties in input order; the
    library always runs its heap, whose tie-break (a tuple comparison) needs ``==`` of the keys"""
    if case["tool"] not in ("nlargest", "nsmallest") or case.get("profile") != "ltpure" or not case["srcs"]:
        return False
    src = case["srcs"][0]
    sized = src.get("fl") in ("tuple", "tuplesub", "ringlist") or (src.get("fl") == "list" and src.get("mutable"))
    keys = [it[1] for it in src["items"] if it[0] == "LP"]
    return bool(sized and case["params"]["n"] >= len(src["items"]) and len(keys) != len(set(keys)))


# known findings that are excluded by construction once reported (see known_findings.json)
EXCLUSIONS = {
    "sum-float-compensation": lambda case: case["tool"] == "sum" and case.get("profile") == "inexact",
    "heap-selection-sized-shortcut": _sized_selection_of_unequal_ties,
}


def nontrivial(case):
    f = features(case)
    v = (case.get("params") or {}).get("v") or {}
    if f["tie"] and f["max_len"] >= 2:
        return True
    if f["max_len"] == 0 and v:
        return True
    start = v.get("start")
    if start is not None and start[0] in ("l", "A"):
        return True
    events = consumer_view(run_sync(case).ctx.log)
    return bool(events) and events[-1][0] == "raise"


def classify(case):
    f = features(case)
    out = [f"input-{case['srcs'][0]['fl']}"] if case["srcs"] else ["input-omitted"]
    if f["tie"]:
        out.append("tie")
    if f["max_len"] == 0:
        out.append("empty-input")
    if case["fns"]:
        out.append("key/fn-" + next(iter(case["fns"].values()))["fl"])
    events = consumer_view(run_sync(case).ctx.log)
    if events and events[-1][0] == "raise":
        out.append("stdlib-raises")
    return out


# ---- range objects as input (a sequence with closed-form length, sum, min, max ...) ---------------------------


class Sat:
    """a number-like start value whose + is NOT associative with ints: it saturates at a cap"""

    def __init__(self, v, cap):
        self.v, self.cap = v, cap

    def __add__(self, other):
        if isinstance(other, Sat):
            other = other.v
        return Sat(min(self.v + other, self.cap), self.cap)

    __radd__ = __add__

    def __eq__(self, other):
        return isinstance(other, Sat) and (self.v, self.cap) == (other.v, other.cap)

    def __hash__(self):
        return hash((self.v, self.cap))

    def __repr__(self):
        return f"Sat({self.v},{self.cap})"


class Trace:
    """a start value that remembers every operand added to it, in order: summing is one addition per item"""

    def __init__(self, log=()):
        self.log = tuple(log)

    def __add__(self, other):
        return Trace(self.log + (other,))

    def __radd__(self, other):
        return Trace((other,) + self.log)

    def __repr__(self):
        return f"Trace{self.log}"


@st.composite
def range_cases(draw):
    start = draw(st.integers(-4, 6))
    delta = draw(st.integers(-8, 8))
    stop = start + delta
    step = draw(st.sampled_from([1, 1, 2, 3])) * (1 if delta >= 0 or draw(st.integers(0, 5)) == 0 else -1)
    tool = draw(st.sampled_from(["sum", "sum", "sum", "sum", "list", "tuple", "set", "min", "max", "sorted", "any", "all",
                                 "nlargest", "nsmallest", "reduce-sub"]))
    return {"tool": tool, "r": [start, stop, step], "flavour": draw(st.sampled_from(["range", "range", "async"])),
            "start": draw(st.sampled_from([None, ["i", 3], ["trace"], ["trace"], ["sat", 4, 5], ["sat", 0, 3], ["sat", 2, 3], ["sat", 4, 5],
                                           ["f", 0.5], ["F", 1, 3]])),
            "n": draw(st.integers(0, 4))}


def check_range(case):
    import builtins, functools, heapq, operator
    from fractions import Fraction
    from ..driver import Ctx, run
    import asyncstdlib as a

    r = range(*case["r"])
    sv = case["start"]
    start = None if sv is None else (sv[1] if sv[0] in ("i", "f") else Fraction(sv[1], sv[2]) if sv[0] == "F"
                                     else Trace() if sv[0] == "trace" else Sat(sv[1], sv[2]))
    tool = case["tool"]

    async def agen():
        for x in r:
            yield x

    source = r if case["flavour"] == "range" else agen()
    ref = {"sum": lambda it: builtins.sum(it) if start is None else builtins.sum(it, start),
           "list": builtins.list, "tuple": builtins.tuple, "set": builtins.set,
           "min": lambda it: builtins.min(it, default="empty"), "max": lambda it: builtins.max(it, default="empty"),
           "sorted": lambda it: builtins.sorted(it, reverse=True), "any": builtins.any, "all": builtins.all,
           "nlargest": lambda it: heapq.nlargest(case["n"], it), "nsmallest": lambda it: heapq.nsmallest(case["n"], it),
           "reduce-sub": lambda it: functools.reduce(operator.sub, it, 100)}[tool]
    lib = {"sum": lambda it: a.sum(it) if start is None else a.sum(it, start),
           "list": a.list, "tuple": a.tuple, "set": a.set,
           "min": lambda it: a.min(it, default="empty"), "max": lambda it: a.max(it, default="empty"),
           "sorted": lambda it: a.sorted(it, reverse=True), "any": a.any, "all": a.all,
           "nlargest": lambda it: a.nlargest(it, case["n"]), "nsmallest": lambda it: a.nsmallest(it, case["n"]),
           "reduce-sub": lambda it: a.reduce(operator.sub, it, 100)}[tool]
    try:
        want = ("return", type(ref(r)).__name__, repr(ref(r)))
    except Exception as exc:
        want = ("raise", type(exc).__name__)
    outcome = run(Ctx("a"), lib(source))
    got = ("return", type(outcome[1]).__name__, repr(outcome[1])) if outcome[0] == "return" else \
        ("raise", type(outcome[1]).__name__)
    if got != want:
        raise Violation(f"C02/{tool.split('-')[0]}/wrong-result", f"range{tuple(case['r'])} start={start!r}: async={got} "
                                                                   f"stdlib={want}")
    return None


def known_finding_inputs():
    def src(items, fl):
        return {"items": items, "fl": fl, "susp": 0, "csusp": False, "fault": None}

    ties = [["LP", 0, 0], ["LP", 0, 1]]
    tenth = [["f", 0.1]] * 10
    return [
        {"tool": "nsmallest", "profile": "ltpure", "srcs": [src(ties, "tuple")], "fns": {}, "params": {"n": 2},
         "plan": [], "close": True},
        {"tool": "nlargest", "profile": "ltpure", "srcs": [src(ties + [["LP", 1, 2]], "tuple")], "fns": {},
         "params": {"n": 3}, "plan": [], "close": True},
        {"tool": "sum", "profile": "inexact", "srcs": [src(tenth, "list")], "fns": {}, "params": {}, "plan": [],
         "close": True},
    ]


def shards(tier):
    large = [Shard(f"large-{name}", check, fuzz=0, strategy=cases_large(name), n=400, nontrivial=nontrivial,
                   classify=classify, thorough_mult=15)
             for name in ("nlargest", "nsmallest", "sorted", "min", "max", "reduce", "sum")]
    large += [Shard(f"big-numbers-{i}", check, strategy=big_number_cases(), n=15, nontrivial=lambda c: True,
                    thorough_mult=8) for i in range(2)]
    from ..native import native_cases, AGGREGATIONS
    from .c01 import check_native

    def check_native_agg(case):
        try:
            return check_native(case)
        except Violation as v:
            raise Violation(v.bucket.replace("C01/", "C02/", 1), v.detail) from None

    large.append(Shard("native-sources", check_native_agg, strategy=native_cases(list(AGGREGATIONS)), n=1500,
                       nontrivial=lambda c: sum(len(d) for d in c["data"]) >= 2, thorough_mult=15))
    large.append(Shard("range-sources", check_range, strategy=range_cases(), n=800,
                       nontrivial=lambda c: len(range(*c["r"])) >= 2, thorough_mult=10))
    # the inputs of the recorded findings themselves, so that each finding is reported (KNOWN-FINDING) at every seed;
    # afterwards they are excluded like every other case of their kind
    large.append(Shard("known-finding-inputs", check, cases=known_finding_inputs, nontrivial=lambda c: True,
                       exhaustive=True))
    return large + [
        Shard(name, check, strategy=cases(name, 8 if tier == "quick" else 12), n=1200,
              nontrivial=nontrivial, classify=classify, thorough_mult=25)
        for name in AGG_TOOLS
    ]
