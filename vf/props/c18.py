"""C18 - cancellation anywhere leaves no leaked source, held lock or poisoned cache."""
import copy

from hypothesis import strategies as st

from ..runner import Shard, Violation
from ..tools import ITER_TOOLS, AGG_TOOLS, TOOLS
from ..gen import base_case, features, K, Uids
from ..core import build, planned_name, HarnessError
from ..driver import Ctx, run, loop_mode, close_orphans, Cancel, Lock, lock_type
from ..values import sig, mats
from ..doubles import make_source
from .c04 import owed_sources, ASYNC_CLOSEABLE

PROPERTY = "C18"
LEVEL = "fault_enumeration"
RULE = (
    "For each generated operation (every iterator tool and aggregation with 1-3 suspending sources as "
    "async generator / class / plain-awaitable class / class behind a delegating proxy / re-iterable async iterable, "
    "optionally with value equality between distinct sources, and suspending async callables (async def, callable "
    "objects, generator-based coroutine functions); tee with a lock; "
    "lru_cache with a suspending function; cached_property with a lock type; ExitStack with 1-3 entered "
    "managers / pushed exits / callbacks; a scoped_iter block using several tools; groupby with partly "
    "consumed groups) a cancellation-free "
    "run counts the suspension points N; then EVERY i in 1..N is a separate run in which a fresh "
    "Cancel(BaseException) object is thrown into the task at its i-th suspension; the owner then closes "
    "the library iterator it holds. Oracle: that very Cancel object leaves the operation; every source "
    "with aclose is closed or exhausted; every lock double is free with balanced acquire/release; every "
    "registered exit ran exactly once and received the Cancel object; the cache holds no entry for the "
    "cancelled call, its statistics add up, and a following call computes and caches normally; the "
    "cached property recomputes. Non-trivial: N >= 2 and the cancelled suspension is not the first one "
    "(something was already in flight). One evaluation = one cancelled run."
)
ASSUMPTIONS = [
    "aclose of sources does not suspend (a cancellation inside a generator's cleanup aborts its finally by language design); ExitStack exit handlers DO suspend and are cancelled too",
    "exactly one cancellation per run",
]

ALL = [t for t in ITER_TOOLS if t != "tee"] + AGG_TOOLS


@st.composite
def tool_cases(draw, name, tier, cfaults=True):
    case = draw(base_case(name, max_len=3 if tier == "quick" else 5, max_src=3))
    if name != "iter_sentinel":
        for s in case["srcs"]:
            s["fl"] = draw(st.sampled_from(["agen", "aclass", "aplain", "aclass", "aclass_noclose", "agenlike", "aproxy",
                                             "areiter", "alateclose", "agencoro", "aclass_cm"]))
            s["eqsrc"] = draw(st.sampled_from([False] * 2 + [True, "unhashable"]))
            s["falsy"] = draw(st.integers(0, 3)) == 0
            s["susp"] = draw(st.integers(1, 2))
            s["cret"] = draw(st.sampled_from([None, None, True]))
            # the cleanup of a source suspends, too: a cancellation may arrive while the tool is closing its sources
            s["csusp"] = draw(st.booleans())
            if cfaults and draw(st.integers(0, 5)) == 0 and s["fl"] not in ("agen", "aclass_noclose", "areiter"):
                # ... and the cleanup of this source fails (after having closed it): a second interruption of the
                # tool's cleanup, on top of the cancellation - the OTHER sources must be released all the same
                s["cfault"] = "LookupError"
    else:
        case["srcs"][0]["fl"] = "async"
        case["srcs"][0]["susp"] = 1
    if name == "chain_from_iterable":
        case["params"]["outer"]["fl"] = draw(st.sampled_from(["agen", "aclass"]))
        case["params"]["outer"]["susp"] = 1
        case["params"]["outer"]["csusp"] = draw(st.booleans())
        case["params"]["outer"]["falsy"] = draw(st.integers(0, 2)) == 0
    for spec in case["fns"].values():
        spec["fl"] = draw(st.sampled_from(["async", "obj", "objaw", "gencoro", "classaw"]))
        spec["susp"] = 1
    case["mode"] = draw(st.sampled_from(["hooks", "bare"]))
    return case


async def tool_task(b, case):
    tool = b.tool
    b.advanced = True
    if tool.kind == "agg":
        return await tool.make_a(b.S, b.F, b.P, b.V)
    out = tool.make_a(b.S, b.F, b.P, b.V)
    try:
        for _ in case["plan"]:
            try:
                await out.__anext__()
            except StopAsyncIteration:
                break
    finally:
        # the owner closes the iterator it was advancing
        closer = getattr(out, "aclose", None)
        if closer is not None:
            await closer()


def run_tool(case, cancel_at):
    b = build(case, "a")
    cancel = Cancel("cancel") if cancel_at else None
    with loop_mode(b.ctx, case["mode"]):
        outcome = run(b.ctx, tool_task(b, case), cancel_at, cancel)
        n = b.ctx.last_suspensions
        if cancel_at is None:
            close_orphans(b.ctx)
            return n
        tool = case["tool"]
        if not b.ctx.cancel_delivered:
            return n
        replaced = False
        if outcome[0] == "raise" and outcome[1] is not cancel and any(s_.get("cfault") for s_ in case["srcs"]):
            # a source's own cleanup failed AFTER the cancellation had been raised: as with nested finally blocks the
            # later failure propagates.  (The cancellation need not be in its __context__ chain: a source closed
            # through the aclose() of a helper generator fails while a GeneratorExit is being handled.)
            replaced = any(outcome[1] is s_.close_fault for s_ in b.srcs if getattr(s_, "close_fault", None))
            # ... but only a failure that happened AFTER the cancellation replaces it: a cleanup that had failed
            # before the cancellation arrived (in a later source's suspended aclose) is its context, not its successor
            at = getattr(b.ctx, "cancel_log_index", 0)
            faults_after = [e for e in b.ctx.log[at:] if e[0] == "close-fault"]
            if replaced and not faults_after:
                replaced = False
        if (outcome[0] != "raise" or outcome[1] is not cancel) and not replaced:
            raise Violation(f"C18/{tool}/cancellation-not-propagated",
                            f"cancel_at={cancel_at} outcome={outcome!r}", case=dict(case, cancel_at=cancel_at))
        meddling = [e for e in b.ctx.log if e[0] in ("asend", "athrow")]
        if meddling:
            raise Violation(f"C18/{tool}/library-sends-or-throws-into-a-source", f"{meddling[:2]}",
                            case=dict(case, cancel_at=cancel_at))
        leaked = [s.name for s in owed_sources(b, case) if not s.released]
        if leaked:
            raise Violation(f"C18/{tool}/source-leaked-after-cancel",
                            f"cancel_at={cancel_at}/{n} leaked={leaked}", case=dict(case, cancel_at=cancel_at))
        close_orphans(b.ctx)
    return n


def check_tool(case):
    if case.get("cancel_at"):
        run_tool(case, case["cancel_at"])
        return None
    n = run_tool(case, None)
    for i in range(1, n + 1):
        run_tool(case, i)
    return {"evaluations": max(n, 1), "nontrivial": [str(i) for i in range(2, n + 1)],
            "labels": {"cancel-points": n}}


# ---------------------------------------------------------------------------
# special operations: each returns (coroutine, post_check)


def _expand(case, runner):
    if case.get("cancel_at"):
        runner(case, case["cancel_at"])
        return None
    n = runner(case, None)
    for i in range(1, n + 1):
        runner(case, i)
    return {"evaluations": max(n, 1), "nontrivial": [str(i) for i in range(2, n + 1)],
            "labels": {"cancel-points": n}}


def _must_propagate(kind, outcome, cancel, case, cancel_at):
    if outcome[0] != "raise" or outcome[1] is not cancel:
        raise Violation(f"C18/{kind}/cancellation-not-propagated",
                        f"cancel_at={cancel_at} outcome={outcome!r}", case=dict(case, cancel_at=cancel_at))


def _locks_free(kind, ctx, case, cancel_at):
    for lock in ctx.locks:
        if lock.locked or lock.waiters or lock.acquired != lock.released or lock.errors:
            raise Violation(f"C18/{kind}/lock-not-released",
                            f"cancel_at={cancel_at} locked={lock.locked} acquired={lock.acquired} "
                            f"released={lock.released} errors={lock.errors}",
                            case=dict(case, cancel_at=cancel_at))


# -- tee with lock


@st.composite
def tee_cases(draw, tier):
    uids = Uids()
    items = [uids.fix(x) for x in draw(st.lists(K, max_size=3))]
    n = draw(st.integers(1, 3))
    plan = draw(st.lists(st.integers(0, n - 1), max_size=8))
    return {"op": "tee", "items": items, "n": n, "plan": plan,
            "fl": draw(st.sampled_from(["agen", "aclass", "aplain"])),
            "susp": draw(st.integers(1, 2)), "lock_susp": draw(st.booleans()),
            "nolock": draw(st.sampled_from([False, False, True])), "lock_release_susp": draw(st.booleans())}


def run_tee(case, cancel_at):
    import asyncstdlib as a

    ctx = Ctx("a")
    src = make_source(ctx, "s0", mats(case["items"]), {"fl": case["fl"], "susp": case["susp"]}, "a")
    lock = None if case.get("nolock") else Lock(ctx, "lock", suspend_uncontended=case["lock_susp"],
                                                release_susp=case.get("lock_release_susp", False))
    cancel = Cancel("cancel") if cancel_at else None

    async def task():
        handle = a.tee(src.obj, case["n"], lock=lock) if lock is not None else a.tee(src.obj, case["n"])
        children = list(handle)
        done = set()
        try:
            for i in case["plan"]:
                if i in done:
                    continue
                try:
                    await children[i].__anext__()
                except StopAsyncIteration:
                    done.add(i)
        finally:
            await handle.aclose()

    with loop_mode(ctx, "hooks"):
        outcome = run(ctx, task(), cancel_at, cancel)
        n = ctx.last_suspensions
        if cancel_at is None or not ctx.cancel_delivered:
            close_orphans(ctx)
            return n
        _must_propagate("tee", outcome, cancel, case, cancel_at)
        _locks_free("tee", ctx, case, cancel_at)
        if not src.released:
            raise Violation("C18/tee/source-leaked-after-cancel", f"cancel_at={cancel_at}/{n}",
                            case=dict(case, cancel_at=cancel_at))
        close_orphans(ctx)
    return n


# -- lru_cache


@st.composite
def lru_cases(draw, tier):
    return {"op": "lru_cache", "maxsize": draw(st.sampled_from([None, 1, 2, 0])),
            "keys": draw(st.lists(st.integers(0, 2), min_size=1, max_size=5)),
            "susp": draw(st.integers(1, 2))}


def run_lru(case, cancel_at):
    import asyncstdlib as a

    ctx = Ctx("a")
    invocations = []
    cancel = Cancel("cancel") if cancel_at else None

    async def fn(key):
        invocations.append(key)
        for _ in range(case["susp"]):
            await ctx.suspend(("fn", key))
        return ("value", key, len(invocations))

    cached = a.lru_cache(maxsize=case["maxsize"])(fn)
    progress = {"started": 0, "finished": 0}

    async def task():
        for key in case["keys"]:
            progress["started"] += 1
            await cached(key)
            progress["finished"] += 1

    outcome = run(ctx, task(), cancel_at, cancel)
    n = ctx.last_suspensions
    if cancel_at is None or not ctx.cancel_delivered:
        return n
    kind = "lru_cache"
    _must_propagate(kind, outcome, cancel, case, cancel_at)
    info = cached.cache_info()
    cancelled_key = case["keys"][progress["started"] - 1]
    maxsize = case["maxsize"]
    finished_keys = case["keys"][:progress["finished"]]
    detail = f"cancel_at={cancel_at}/{n} keys={case['keys']} info={tuple(info)} invocations={invocations}"
    vcase = dict(case, cancel_at=cancel_at)
    if info.hits + info.misses != progress["started"]:
        raise Violation(f"C18/{kind}/hits-plus-misses-differs-from-calls", detail, case=vcase)
    if info.misses != len(invocations):
        raise Violation(f"C18/{kind}/misses-differ-from-invocations", detail, case=vcase)
    expected_size = len(set(finished_keys)) if maxsize is None else min(len(set(finished_keys)), maxsize)
    if maxsize == 0:
        expected_size = 0
    if info.currsize != expected_size:
        raise Violation(f"C18/{kind}/partial-entry-or-lost-entry", detail + f" expected_size={expected_size}",
                        case=vcase)
    # the cancelled key must compute again unless an earlier finished call cached it
    before = len(invocations)
    out2 = run(ctx, cached(cancelled_key))
    if out2[0] != "return":
        raise Violation(f"C18/{kind}/cache-unusable-after-cancel", detail + f" second={out2!r}", case=vcase)
    value = out2[1]
    if value[1] != cancelled_key:
        raise Violation(f"C18/{kind}/wrong-value-after-cancel", detail + f" value={value}", case=vcase)
    recomputed = len(invocations) > before
    if recomputed and value != ("value", cancelled_key, len(invocations)):
        raise Violation(f"C18/{kind}/wrong-value-after-cancel", detail + f" value={value}", case=vcase)
    if not recomputed and cancelled_key not in finished_keys:
        raise Violation(f"C18/{kind}/cancelled-call-was-cached", detail, case=vcase)
    if maxsize != 0:
        before = len(invocations)
        out3 = run(ctx, cached(cancelled_key))
        if out3[0] != "return" or out3[1] is not value or len(invocations) != before:
            raise Violation(f"C18/{kind}/not-cached-after-cancel", detail + f" third={out3!r}", case=vcase)
    return n


# -- cached_property with lock


@st.composite
def prop_cases(draw, tier):
    return {"op": "cached_property", "susp": draw(st.integers(1, 2)), "lock": draw(st.booleans()),
            "lock_susp": draw(st.booleans()), "awaits": draw(st.integers(1, 3))}


def run_prop(case, cancel_at):
    import asyncstdlib as a

    ctx = Ctx("a")
    runs = []
    cancel = Cancel("cancel") if cancel_at else None
    LockT = lock_type(ctx, "plock", suspend_uncontended=case["lock_susp"])

    async def getter(self):
        runs.append(len(runs))
        for _ in range(case["susp"]):
            await ctx.suspend(("getter", len(runs)))
        return ["value", len(runs)]

    if case["lock"]:
        class Holder:
            prop = a.cached_property(LockT)(getter)
    else:
        class Holder:
            prop = a.cached_property(getter)
    Holder.prop.__set_name__(Holder, "prop")
    obj = Holder()

    async def task():
        for _ in range(case["awaits"]):
            await obj.prop

    outcome = run(ctx, task(), cancel_at, cancel)
    n = ctx.last_suspensions
    if cancel_at is None or not ctx.cancel_delivered:
        return n
    kind = "cached_property"
    vcase = dict(case, cancel_at=cancel_at)
    _must_propagate(kind, outcome, cancel, case, cancel_at)
    _locks_free(kind, ctx, case, cancel_at)
    before = len(runs)
    out2 = run(ctx, _await(obj, "prop"))
    if out2[0] != "return":
        raise Violation(f"C18/{kind}/unusable-after-cancel", f"cancel_at={cancel_at} second={out2!r}", case=vcase)
    if len(runs) != before + 1:
        raise Violation(f"C18/{kind}/cancelled-computation-was-cached",
                        f"cancel_at={cancel_at} runs={runs} value={out2[1]}", case=vcase)
    out3 = run(ctx, _await(obj, "prop"))
    if out3[0] != "return" or out3[1] is not out2[1] or len(runs) != before + 1:
        raise Violation(f"C18/{kind}/not-cached-after-cancel", f"cancel_at={cancel_at} third={out3!r}", case=vcase)
    _locks_free(kind, ctx, case, cancel_at)
    return n


async def _await(obj, name):
    return await getattr(obj, name)


# -- ExitStack


@st.composite
def stack_cases(draw, tier):
    entries = draw(st.lists(st.sampled_from(["acm", "scm", "push-async", "push-sync", "callback-async",
                                             "callback-sync"]), min_size=1, max_size=3))
    return {"op": "exitstack", "entries": entries, "body_susp": draw(st.integers(0, 2)),
            "enter_susp": draw(st.integers(0, 1)), "exit_susp": draw(st.integers(0, 1))}


def run_stack(case, cancel_at):
    import asyncstdlib as a

    ctx = Ctx("a")
    cancel = Cancel("cancel") if cancel_at else None
    exits = []       # (index, exc_val) in call order
    registered = []  # indexes whose registration completed

    class ACM:
        def __init__(self, i):
            self.i = i

        async def __aenter__(self):
            for _ in range(case["enter_susp"]):
                await ctx.suspend(("enter", self.i))
            return self

        async def __aexit__(self, et, ev, tb):
            exits.append((self.i, ev))
            for _ in range(case.get("exit_susp", 0)):
                await ctx.suspend(("exit", self.i))
            return False

    class SCM:
        def __init__(self, i):
            self.i = i

        def __enter__(self):
            return self

        def __exit__(self, et, ev, tb):
            exits.append((self.i, ev))
            return False

    async def task():
        async with a.ExitStack() as stack:
            for i, kind in enumerate(case["entries"]):
                if kind == "acm":
                    await stack.enter_context(ACM(i))
                elif kind == "scm":
                    await stack.enter_context(SCM(i))
                elif kind == "push-async":
                    async def aexit(et, ev, tb, i=i):
                        exits.append((i, ev))
                        for _ in range(case.get("exit_susp", 0)):
                            await ctx.suspend(("exit", i))
                        return False
                    stack.push(aexit)
                elif kind == "push-sync":
                    def sexit(et, ev, tb, i=i):
                        exits.append((i, ev))
                        return False
                    stack.push(sexit)
                elif kind == "callback-async":
                    async def acb(tag, i=i):
                        exits.append((i, tag))
                        for _ in range(case.get("exit_susp", 0)):
                            await ctx.suspend(("exit", i))
                    stack.callback(acb, "cb")
                else:
                    def scb(tag, i=i):
                        exits.append((i, tag))
                    stack.callback(scb, "cb")
                registered.append(i)
                await ctx.suspend(("between", i))
            for _ in range(case["body_susp"]):
                await ctx.suspend(("body", 0))

    outcome = run(ctx, task(), cancel_at, cancel)
    n = ctx.last_suspensions
    if cancel_at is None or not ctx.cancel_delivered:
        return n
    kind = "exitstack"
    vcase = dict(case, cancel_at=cancel_at)
    _must_propagate(kind, outcome, cancel, case, cancel_at)
    ran = [i for i, _ in exits]
    if sorted(ran) != sorted(registered) or ran != sorted(ran, reverse=True):
        raise Violation(f"C18/{kind}/exits-not-run-once-in-lifo-order",
                        f"cancel_at={cancel_at} registered={registered} ran={ran}", case=vcase)
    # where did the cancellation land?  inside exit handler k => the exits invoked up to and
    # including k saw the block end normally (None), the ones after it must receive the Cancel
    hit = next((s_.origin for s_ in ctx.issued if s_.thrown is cancel), None)
    in_exit = hit is not None and hit[0] == "exit"
    seen_hit = not in_exit
    for i, ev in exits:
        expect_cancel = seen_hit
        if in_exit and i == hit[1]:
            seen_hit = True
        if case["entries"][i].startswith("callback"):
            if ev != "cb":
                raise Violation(f"C18/{kind}/callback-arguments", f"{i}: {ev!r}", case=vcase)
        elif expect_cancel and ev is not cancel:
            raise Violation(f"C18/{kind}/exit-did-not-receive-cancellation",
                            f"cancel_at={cancel_at} hit={hit} exit {i} received {ev!r}", case=vcase)
        elif not expect_cancel and ev is not None:
            raise Violation(f"C18/{kind}/exit-received-unexpected-exception",
                            f"cancel_at={cancel_at} hit={hit} exit {i} received {ev!r}", case=vcase)
    return n


# -- scoped_iter block


@st.composite
def scoped_cases(draw, tier):
    uids = Uids()
    items = [uids.fix(x) for x in draw(st.lists(K, min_size=1, max_size=5))]
    steps = draw(st.lists(st.tuples(st.sampled_from(["islice", "anext", "takewhile", "list-islice", "zip"]),
                                    st.integers(0, 2)), min_size=1, max_size=3))
    return {"op": "scoped_iter", "items": items, "steps": [list(s) for s in steps],
            "fl": draw(st.sampled_from(["agen", "aclass", "aplain"])), "susp": draw(st.integers(1, 2)),
            "depth": draw(st.integers(1, 2))}


def run_scoped(case, cancel_at):
    import asyncstdlib as a

    ctx = Ctx("a")
    cancel = Cancel("cancel") if cancel_at else None
    src = make_source(ctx, "s0", mats(case["items"]), {"fl": case["fl"], "susp": case["susp"]}, "a")

    async def use(it):
        for tool, k in case["steps"]:
            if tool == "islice":
                async for _ in a.islice(it, k):
                    pass
            elif tool == "anext":
                await a.anext(it, None)
            elif tool == "takewhile":
                async for _ in a.takewhile(lambda x: x.key < 2, it):
                    pass
            elif tool == "list-islice":
                await a.list(a.islice(it, k))
            else:
                async for _ in a.zip(range(k), it):
                    pass

    async def task():
        async with a.scoped_iter(src.obj) as it:
            if case["depth"] == 2:
                async with a.scoped_iter(it) as inner:
                    await use(inner)
                await a.anext(it, None)
            else:
                await use(it)

    with loop_mode(ctx, "hooks"):
        outcome = run(ctx, task(), cancel_at, cancel)
        n = ctx.last_suspensions
        if cancel_at is None or not ctx.cancel_delivered:
            close_orphans(ctx)
            return n
        kind = "scoped_iter"
        vcase = dict(case, cancel_at=cancel_at)
        _must_propagate(kind, outcome, cancel, case, cancel_at)
        if not src.released:
            raise Violation(f"C18/{kind}/source-leaked-after-cancel", f"cancel_at={cancel_at}/{n}", case=vcase)
        if src.close_calls > 1:
            raise Violation(f"C18/{kind}/source-closed-twice", f"cancel_at={cancel_at} calls={src.close_calls}",
                            case=vcase)
        close_orphans(ctx)
    return n


# -- groupby


@st.composite
def groupby_cases(draw, tier):
    uids = Uids()
    items = [uids.fix(x) for x in draw(st.lists(K, min_size=1, max_size=5))]
    return {"op": "groupby", "items": items, "fl": draw(st.sampled_from(["agen", "aclass", "aplain"])),
            "susp": draw(st.integers(1, 2)), "key": draw(st.sampled_from([None, "sync", "async"])),
            "take": draw(st.integers(0, 3))}


def run_groupby(case, cancel_at):
    import asyncstdlib as a

    ctx = Ctx("a")
    cancel = Cancel("cancel") if cancel_at else None
    src = make_source(ctx, "s0", mats(case["items"]), {"fl": case["fl"], "susp": case["susp"]}, "a")

    async def akey(item):
        await ctx.suspend(("key", item.uid))
        return item.key

    key = {None: None, "sync": (lambda item: item.key), "async": akey}[case["key"]]

    async def task():
        gb = a.groupby(src.obj, key) if key is not None else a.groupby(src.obj)
        try:
            async for _, group in gb:
                taken = 0
                async for _ in group:
                    taken += 1
                    if taken >= case["take"]:
                        break
        finally:
            await gb.aclose()

    with loop_mode(ctx, "hooks"):
        outcome = run(ctx, task(), cancel_at, cancel)
        n = ctx.last_suspensions
        if cancel_at is None or not ctx.cancel_delivered:
            close_orphans(ctx)
            return n
        _must_propagate("groupby", outcome, cancel, case, cancel_at)
        if not src.released:
            raise Violation("C18/groupby/source-leaked-after-cancel", f"cancel_at={cancel_at}/{n}",
                            case=dict(case, cancel_at=cancel_at))
        close_orphans(ctx)
    return n


def shards(tier):
    out = [
        Shard(name, check_tool, strategy=tool_cases(name, tier), n=150, nontrivial=lambda c: False,
              thorough_mult=25)
        for name in ALL
    ]
    specials = [("op-tee-lock", tee_cases, run_tee), ("op-lru_cache", lru_cases, run_lru),
                ("op-cached_property", prop_cases, run_prop), ("op-exitstack", stack_cases, run_stack),
                ("op-scoped_iter", scoped_cases, run_scoped), ("op-groupby", groupby_cases, run_groupby)]
    for name, strat, runner in specials:
        out.append(Shard(name, (lambda case, runner=runner: _expand(case, runner)), strategy=strat(tier),
                         n=500, nontrivial=lambda c: False, thorough_mult=25))
    return out
