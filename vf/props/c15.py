"""C15 - context managers as decorators wrap every call in a fresh, paired context."""
import contextlib

from hypothesis import strategies as st

from ..doubles import forwarding
from ..runner import Shard, Violation
from ..driver import Ctx, Scheduler, Cancel, all_schedules
from .. import env

env.setup()
import asyncstdlib as a  # noqa: E402


async def _report_hook(*args):
    """a coroutine function handed to a manager factory as its argument"""

PROPERTY = "C15"
LEVEL = "exploration"
RULE = (
    "Hypothesis draws a manager (generator-based via contextmanager, or a ContextDecorator subclass; suppressing "
    "or not; 0-1 suspensions in enter and in exit), a decorated coroutine function (0-2 suspensions in the body) "
    "and 1-3 tasks making 1-3 sequential calls each whose body returns or raises, optionally one task cancelled "
    "at its s-th suspension, and a schedule (list of ints). Thorough: ALL schedules for 2 tasks x 1-2 calls. "
    "Oracle per call, from the event log keyed by (task, call): enter before body before exit, exactly one enter "
    "and one exit, the exit receives the body's exception object (or the Cancel), the call returns the body's "
    "result / propagates its exception / returns None when suppressed; generator-based managers use a distinct "
    "generator per call; and differentially the same scenario under the same schedule with "
    "contextlib.asynccontextmanager / contextlib.AsyncContextDecorator gives the same per-call outcomes. "
    "Non-trivial: two calls were between enter and exit at the same time, or a call raised / was cancelled "
    "while another was inside its body."
)
ASSUMPTIONS = [
    "class-based managers are written re-entrant and concurrency safe (the documented precondition for the default _recreate_cm)",
    "CPython 3.12 contextlib decorators are the differential reference",
]


class BodyError(Exception):
    pass


@st.composite
def configs(draw, tier):
    ntasks = draw(st.integers(1, 3))
    tasks = [[draw(st.sampled_from(["return", "return", "raise", "raise-plain"])) for _ in range(draw(st.integers(1, 3)))]
             for _ in range(ntasks)]
    cancel = draw(st.one_of(st.none(), st.none(), st.tuples(st.integers(0, ntasks - 1), st.integers(1, 6))))
    # "class-aw": a class-based manager whose instances are ALSO awaitable (pool.acquire() style objects usable
    # with ``await`` and with ``async with``): decorating with it means entering it
    return {"kind": draw(st.sampled_from(["gen", "gen", "class", "class-aw", "class-recreate"])), "suppress": draw(st.booleans()),
            "enter_susp": draw(st.integers(0, 1)), "exit_susp": draw(st.integers(0, 1)),
            "body_susp": draw(st.integers(0, 2)), "tasks": tasks,
            "cancel": list(cancel) if cancel else None,
            # the decorating instance is ALSO entered directly (async with) before the decorated calls
            "enter_first": draw(st.sampled_from([False, False, False, True])),
            # keyword arguments of the decorated function under names a wrapper might use for itself
            "extra": draw(st.sampled_from(["none", "none", "func", "many"])),
            # the calls are made while the calling task is handling an unrelated exception
            "in_handler": draw(st.booleans()),
            # a suppressing manager also swallows what is not an Exception (the cancellation thrown into a body)
            "suppress_base": draw(st.booleans()),
            # what is decorated: an async def, or a plain def that does part of its work when CALLED and returns a
            # coroutine for the rest (both are "coroutine functions" to their callers)
            "fn_flavour": draw(st.sampled_from(["async", "async", "def-coro"])),
            # (kind gen) the generator function returns a complete, but not a native, asynchronous generator
            "gen_wrap": draw(st.sampled_from([False, False, True])),
            "factory_arg": draw(st.sampled_from(["tag", "tag", "corofn"])),
            "falsy_manager": draw(st.booleans()),
            "choices": draw(st.lists(st.integers(0, 3), max_size=40))}


def run_config(case, impl, choices=None, default="rr"):
    """impl: 'a' = asyncstdlib, 's' = contextlib"""
    ctx = Ctx(impl)
    log = []                 # (task, call, event, extra)
    current = {}             # task name -> call index
    gen_ids = []
    inside = set()
    flags = {"overlap": False, "disturbed": False}
    cm_mod = a if impl == "a" else contextlib
    decorator_base = a.ContextDecorator if impl == "a" else contextlib.AsyncContextDecorator

    def who():
        t = ctx.current_task
        return t, current.get(t)

    def note(event, extra=None):
        t, c = who()
        log.append((t, c, event, extra))

    async def gen_manager(tag=None):
        gid = len(gen_ids)
        gen_ids.append(gid)
        note("enter", gid)
        for _ in range(case["enter_susp"]):
            await ctx.suspend(("enter", gid))
        note("entered", gid)
        try:
            yield ("value", gid)
        except BaseException as exc:  # noqa: B902
            note("exit", exc)
            for _ in range(case["exit_susp"]):
                await ctx.suspend(("exit", gid))
            if not case["suppress"] or not (isinstance(exc, Exception) or case.get("suppress_base")):
                raise
        else:
            note("exit", None)
            for _ in range(case["exit_susp"]):
                await ctx.suspend(("exit", gid))

    class ClassManager(decorator_base):
        async def __aenter__(self):
            note("enter", "class")
            for _ in range(case["enter_susp"]):
                await ctx.suspend(("enter", "class"))
            note("entered", "class")
            return self

        async def __aexit__(self, et, ev, tb):
            note("exit", ev)
            for _ in range(case["exit_susp"]):
                await ctx.suspend(("exit", "class"))
            return bool(case["suppress"] and (isinstance(ev, Exception) or (case.get("suppress_base") and ev is not None)))

    class AwaitableManager(ClassManager):
        def __await__(self):
            note("awaited-instead-of-entered", "class")
            return self
            yield  # pragma: no cover

    class RecreatingManager(ClassManager):
        """NOT re-entrant, and says so through the documented hook: ``_recreate_cm`` hands out the instance itself
        while it is idle and a fresh sibling while it is in use - it has to be asked for EVERY call"""

        def __init__(self):
            self.busy = False

        if case.get("falsy_manager"):
            def __len__(self):
                return 0  # (a manager that is also an - empty - collection: falsy, a manager all the same)

        def _recreate_cm(self):
            return self if not self.busy else type(self)()

        async def __aenter__(self):
            if self.busy:
                note("instance-entered-while-in-use", "class")
            self.busy = True
            return await super().__aenter__()

        async def __aexit__(self, et, ev, tb):
            try:
                return await super().__aexit__(et, ev, tb)
            finally:
                self.busy = False

    if case["kind"] == "gen":
        maker = (a.contextmanager if impl == "a" else contextlib.asynccontextmanager)(
            forwarding(gen_manager) if case.get("gen_wrap") else gen_manager)
        # the one argument of the factory may well be a coroutine function itself (an async report hook): it is an
        # argument, not something to decorate
        deco = maker(_report_hook if case.get("factory_arg") == "corofn" else "tag")
    elif case["kind"] == "class-recreate":
        deco = RecreatingManager()
    elif case["kind"] == "class-aw":
        deco = AwaitableManager()
    else:
        deco = ClassManager()

    errors = {}
    direct = []

    async def enter_directly():
        async with deco:
            direct.append("inside")

    extra = {"none": {}, "func": {"func": "F"},
             "many": {"self": "S", "func": "F", "args": (1,), "kwds": {"k": 1}, "cm": 0, "inner": 0}}[case.get("extra", "none")]

    async def fn_async(task, call, outcome, **received):
        note("body-start", tuple(sorted(received.items(), key=repr)))
        return await body(task, call, outcome)

    def fn_def(task, call, outcome, **received):
        # the synchronous part runs at call time - which must already be inside the context
        note("body-start", tuple(sorted(received.items(), key=repr)))
        return body(task, call, outcome)

    async def body(task, call, outcome):
        key = (task, call)
        if inside:
            flags["overlap"] = True
        inside.add(key)
        try:
            for _ in range(case["body_susp"]):
                await ctx.suspend(("body", task, call))
            if outcome in ("raise", "raise-plain"):
                if len(inside) > 1:
                    flags["disturbed"] = True
                # "raise-plain": an instance of exactly Exception, not of a subclass
                errors[key] = BodyError(f"{task}:{call}") if outcome == "raise" else Exception(f"{task}:{call}")
                raise errors[key]
            note("body-end")
            return ("result", task, call)
        finally:
            inside.discard(key)

    fn = deco(fn_def if case.get("fn_flavour") == "def-coro" else fn_async)
    results = {}

    async def task(i):
        name = f"t{i}"
        if case.get("enter_first") and i == 0 and case["kind"] != "class-recreate":  # (entering it directly is the caller's business)
            current[name] = "direct"
            await enter_directly()
        for c, outcome in enumerate(case["tasks"][i]):
            current[name] = c
            try:
                if case.get("in_handler"):
                    try:
                        raise LookupError("unrelated, already being handled")
                    except LookupError:
                        value = await fn(name, c, outcome, **extra)
                else:
                    value = await fn(name, c, outcome, **extra)
            except Cancel as exc:
                results[(name, c)] = ("cancelled", exc)
                if len(inside) >= 1:
                    flags["disturbed"] = True
                raise
            except Exception as exc:
                results[(name, c)] = ("raise", exc)
            else:
                results[(name, c)] = ("return", value)

    cancel, cancel_obj = {}, None
    if case["cancel"]:
        cancel_obj = Cancel("cancel")
        cancel = {f"t{case['cancel'][0]}": (case["cancel"][1], cancel_obj)}
    sched = Scheduler(ctx, [(f"t{i}", task(i)) for i in range(len(case["tasks"]))],
                      case["choices"] if choices is None else choices, cancel=cancel, max_steps=3000,
                      default=default)
    sched.run()
    return {"sched": sched, "log": log, "results": results, "errors": errors, "flags": flags,
            "cancel": cancel_obj, "gen_ids": gen_ids}


def invariants(case, r):
    sched = r["sched"]
    if sched.verdict:
        return (sched.verdict, f"trace={sched.trace[-10:]}")
    for t in sched.tasks:
        kind, value = t.outcome
        if kind == "raise" and value is not r["cancel"]:
            return ("task-raised", f"{t.name}: {value!r}")
    per_call = {}
    for t, c, event, extra in r["log"]:
        if event == "instance-entered-while-in-use":
            return ("recreate-hook-not-asked-for-every-call", f"{(t, c)}: an instance in use was entered again")
        per_call.setdefault((t, c), []).append((event, extra))
    seen_gens = set()
    for key, result in r["results"].items():
        events = per_call.get(key, [])
        names = [e for e, _ in events]
        if result[0] == "cancelled":
            # a cancellation may land in enter, body or exit; whatever was entered must be exited once
            if names.count("entered") and names.count("exit") != 1:
                return ("cancelled-call-entered-but-not-exited-once", f"{key}: {names}")
            if names.count("enter") > 1:
                return ("call-entered-twice", f"{key}: {names}")
            if "body-start" in names and "exit" in names:
                ev = [x for e, x in events if e == "exit"][0]
                body_done = "body-end" in names
                if not body_done and ev is not result[1] and key not in r["errors"]:
                    return ("exit-did-not-receive-cancellation", f"{key}: {ev!r}")
            continue
        if (case["suppress"] and case.get("suppress_base") and names and names[-1] == "exit"
                and events[-1][1] is r["cancel"] and r["cancel"] is not None):
            # the cancellation hit the body, was handed to the manager's exit and swallowed there
            if names != ["enter", "entered", "body-start", "exit"] or result != ("return", None):
                return ("swallowed-cancellation-not-suppressed", f"{key}: {names} {result!r}")
            continue
        want_body = "body-end" if key not in r["errors"] else None
        expected = ["enter", "entered", "body-start"] + ([want_body] if want_body else []) + ["exit"]
        if names != expected:
            return ("enter-body-exit-not-paired-in-order", f"{key}: {names} expected {expected}")
        received = events[-1][1]
        if key in r["errors"]:
            if received is not r["errors"][key]:
                return ("exit-did-not-receive-body-exception", f"{key}: {received!r}")
            if case["suppress"]:
                if result != ("return", None):
                    return ("suppressed-call-did-not-return-none", f"{key}: {result!r}")
            elif result[0] != "raise" or result[1] is not r["errors"][key]:
                return ("body-exception-not-propagated", f"{key}: {result!r}")
        else:
            if received is not None:
                return ("exit-received-exception-after-normal-body", f"{key}: {received!r}")
            if result != ("return", ("result",) + key):
                return ("result-dropped-or-changed", f"{key}: {result!r}")
        if case["kind"] == "gen":
            gid = events[0][1]
            if gid in seen_gens:
                return ("generator-shared-between-calls", f"{key}: generator {gid}")
            seen_gens.add(gid)
    return None


def summary(r):
    out = {}
    for key, result in r["results"].items():
        if result[0] == "return":
            out[key] = result
        else:
            out[key] = (result[0], type(result[1]).__name__)
    return out


def check_one(case, choices=None, default="rr"):
    ra = run_config(case, "a", choices, default)
    problem = invariants(case, ra)
    if problem:
        return ra, problem
    if case.get("enter_first"):
        # contextlib's own managers cannot be re-created once entered directly (they drop their
        # arguments): no differential reference for this history, the invariants above decide
        return ra, None
    rs = run_config(case, "s", choices, default)
    if invariants(case, rs) is None and summary(ra) != summary(rs):
        return ra, ("outcomes-differ-from-contextlib-decorator", f"asyncstdlib={summary(ra)} contextlib={summary(rs)}")
    return ra, None


def stacked_cases():
    out = []
    for kind in ("class", "gen"):
        for between in ("wraps", "plain", "none"):
            for times in (2, 3):
                out.append({"kind": kind, "between": between, "times": times})
    return out


def check_stacked(case):
    """one manager object applied to a function several times (``@cm @audited @cm``), with a ``functools.wraps``
    decorator of the caller in between or not: every application is one enter / exit around the call, exactly as
    with contextlib's decorators - being decorated already changes nothing"""
    import functools
    from ..driver import run

    def side(impl):
        counts = {"enter": 0, "exit": 0, "body": 0}
        base = a.ContextDecorator if impl == "a" else contextlib.AsyncContextDecorator

        class Manager(base):
            async def __aenter__(self):
                counts["enter"] += 1
                return self

            async def __aexit__(self, *exc):
                counts["exit"] += 1
                return False

        async def gen():
            counts["enter"] += 1
            try:
                yield
            finally:
                counts["exit"] += 1

        def audited(fn):
            @functools.wraps(fn)
            async def wrapper(*args, **kwargs):
                return await fn(*args, **kwargs)
            return wrapper

        def plain(fn):
            async def wrapper(*args, **kwargs):
                return await fn(*args, **kwargs)
            return wrapper

        cm = Manager() if case["kind"] == "class" else \
            (a.contextmanager if impl == "a" else contextlib.asynccontextmanager)(gen)()

        async def body():
            counts["body"] += 1
            return "result"

        fn = body
        for k in range(case["times"]):
            fn = cm(fn)
            if k + 1 < case["times"] and case["between"] != "none":
                fn = (audited if case["between"] == "wraps" else plain)(fn)
        outcome = run(Ctx(impl), fn())
        return outcome[0], (outcome[1] if outcome[0] == "return" else type(outcome[1]).__name__), dict(counts)

    got, want = side("a"), side("s")
    if got != want:
        raise Violation("C15/stacked-decoration-differs", f"{case}: asyncstdlib={got} contextlib={want}")
    return {"evaluations": 1, "nontrivial": ["x"], "labels": {}}


def check(case):
    ra, problem = check_one(case)
    if problem:
        raise Violation(f"C15/{problem[0]}", f"{problem[1]} config={ {k: v for k, v in case.items() if k != 'choices'} }")
    flags = ra["flags"]
    return {"evaluations": 1, "nontrivial": ["x"] if flags["overlap"] or flags["disturbed"] else [],
            "labels": {k: 1 for k, v in flags.items() if v}}


def small_configs():
    out = []
    for kind in ("gen", "class"):
        for suppress in (False, True):
            for enter_susp, exit_susp, body_susp in ((1, 0, 1), (0, 1, 1), (1, 1, 0), (1, 1, 1)):
                for tasks in ([["return"], ["raise"]], [["raise-plain", "return"], ["return"]],
                              [["return", "raise"], ["raise-plain"]]):
                    out.append({"kind": kind, "suppress": suppress, "enter_susp": enter_susp,
                                "exit_susp": exit_susp, "body_susp": body_susp, "tasks": tasks,
                                "cancel": None, "choices": []})
    return out


def check_exhaustive(case):
    first = []

    def run_with(prefix):
        ra, problem = check_one(case, choices=prefix, default="first")
        if problem and not first:
            first.append((problem, list(prefix)))
        return ra["sched"]

    count, complete = all_schedules(run_with, limit=20000)
    if first:
        (kind, detail), prefix = first[0]
        raise Violation(f"C15/{kind}", f"{detail} schedule={prefix}", case=dict(case, choices=prefix))
    return {"evaluations": count, "nontrivial": [f"schedules={count}"] if count > 1 else [],
            "labels": {"exhaustive-configs": 1, "exhaustive-complete": int(complete), "exhaustive-schedules": count}}


def shards(tier):
    out = [Shard(f"schedules-{i}", check, strategy=configs(tier), n=800, nontrivial=lambda c: False,
                 thorough_mult=15) for i in range(8)]
    cfgs = small_configs()
    if tier == "quick":
        cfgs = [c for c in cfgs if len(c["tasks"][0]) == 1]
    out += [Shard(f"exhaustive-{j}", check_exhaustive, cases=(lambda part=cfgs[j::4]: part),
                  nontrivial=lambda c: False, exhaustive=True) for j in range(4)]
    out.append(Shard("stacked-decoration", check_stacked, cases=stacked_cases, nontrivial=lambda c: False, exhaustive=True))
    return out
