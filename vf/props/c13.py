"""C13 - contextmanager equals contextlib.asynccontextmanager for every generator and body outcome."""
import contextlib
import functools
import itertools

from hypothesis import strategies as st

from ..doubles import forwarding
from ..runner import Shard, Violation
from ..core import expect_return
from ..driver import Ctx, run, loop_mode, close_orphans
from .. import env

env.setup()
import asyncstdlib as a  # noqa: E402

PROPERTY = "C13"
LEVEL = "exploration"
RULE = (
    "The finite program space of the quantifier is enumerated completely in every tier: first step "
    "{raise before yield, no yield, yield} x handler around the yield {none, finally, swallow, re-raise, raise "
    "new, raise new from None, raise same type, return, yield again, raise StopAsyncIteration, raise "
    "StopIteration, raise RuntimeError, raise RuntimeError from the received exception, raise new from the "
    "received exception} x afterwards {stop, yield again, raise} x block outcome {normal, Exception, "
    "BaseException, StopIteration, StopAsyncIteration, RuntimeError, GeneratorExit, KeyboardInterrupt, a falsy "
    "exception instance} = 1134 programs (the quantifier's 864 plus two explicit-cause handlers and one more "
    "block outcome), each with and without suspensions "
    "inside the generator (2268 runs). "
    "Oracle: contextlib.asynccontextmanager around the same generator function - same bound value, same "
    "generator event log (started / resumed / thrown type; cleanup GeneratorExit ignored), same outcome class: "
    "the block's own object propagates / another exception (type, which planned object) / suppressed / "
    "protocol RuntimeError. For a GeneratorExit leaving the block the reference is the documented deviation, "
    "modelled independently: aclose() the generator; if that raises, that propagates, else the original "
    "object. The thorough tier adds Hypothesis-generated variations (exception subclasses, explicit causes, "
    "yielded values, use as decorator). Non-trivial: the generator yields (enter succeeds) and the handler or "
    "the block outcome is not the default."
)
ASSUMPTIONS = [
    "CPython 3.12 contextlib.asynccontextmanager is the oracle",
    "exceptions are compared by role (the block's object / a planned object of the generator / protocol error type), not by message",
]

EXHAUSTIVE_SCOPE = ("table-", "the complete program table of the quantifier (864 programs, plus 144 with explicit-cause "
                    "handlers; x 2: with/without suspensions inside the generator) is enumerated by the table-* "
                    "shards; variations-* shards are sampled extras")

FIRST = ["raise-before-yield", "no-yield", "yield"]
HANDLERS = ["none", "finally", "swallow", "re-raise", "raise-new", "raise-new-from-none", "raise-same-type",
            "return", "yield-again", "raise-StopAsyncIteration", "raise-StopIteration", "raise-RuntimeError",
            "raise-RuntimeError-from-exc", "raise-new-from-exc"]
AFTER = ["stop", "yield-again", "raise"]
BLOCK = ["normal", "Exception", "BaseException", "StopIteration", "StopAsyncIteration", "RuntimeError",
         "GeneratorExit", "KeyboardInterrupt", "FalsyError"]


class FalsyError(Exception):
    """an exception instance that is falsy (e.g. a container-like error with no entries)"""

    def __bool__(self):
        return False

EXC = {"Exception": Exception, "BaseException": BaseException, "StopIteration": StopIteration,
       "StopAsyncIteration": StopAsyncIteration, "RuntimeError": RuntimeError, "GeneratorExit": GeneratorExit,
       "KeyboardInterrupt": KeyboardInterrupt, "KeyError": KeyError, "LookupError": LookupError,
       "ValueError": ValueError, "FalsyError": FalsyError, "CustomBase": type("CustomBase", (BaseException,), {}),
       "CustomRuntime": type("CustomRuntime", (RuntimeError,), {}),
       "CustomStop": type("CustomStop", (StopAsyncIteration,), {}),
       # an application-level "shut down now" exception derived from GeneratorExit: NOT the interpreter closing a
       # generator, so it is thrown into the generator like any other exception of the block
       "CustomGenExit": type("CustomGenExit", (GeneratorExit,), {})}


class ValueEqError(Exception):
    """an exception with VALUE equality (like a dataclass exception): a new instance with the same arguments is
    equal to, but not the same object as, the one the block raised"""

    def __eq__(self, other):
        return type(other) is type(self) and other.args == self.args

    def __hash__(self):
        return hash(self.args)


EXC["ValueEq"] = ValueEqError


class New(Exception):
    pass


def make_program(case, ctx, log):
    """the async generator function described by ``case``"""
    first, handler, after = case["first"], case["handler"], case["after"]
    susp = case.get("susp", 0)
    value = case.get("value", "VALUE")

    async def pause(tag):
        for _ in range(susp):
            await ctx.suspend(("gen", tag))

    async def tail():
        # shared by the normal path and the swallow path
        if after == "raise":
            log.append(("raise-after",))
            raise New("after")

    async def program(*args, **kwargs):
        log.append(("started",) + tuple(args) + tuple(sorted(kwargs.items())))
        await pause("start")
        if first == "raise-before-yield":
            raise New("before")
        if first == "no-yield":
            return
        if handler == "none":
            yield value
            log.append(("resumed",))
        elif handler == "finally":
            try:
                yield value
                log.append(("resumed",))
            finally:
                log.append(("finally",))
        else:
            try:
                yield value
                log.append(("resumed",))
            except BaseException as exc:  # noqa: B902
                log.append(("thrown", type(exc).__name__))
                await pause("handler")
                if handler == "swallow":
                    pass
                elif handler == "re-raise":
                    raise
                elif handler == "raise-new":
                    raise New("handler")
                elif handler == "raise-new-from-none":
                    raise New("handler") from None
                elif handler == "raise-same-type":
                    raise type(exc)("same type")
                elif handler == "raise-equal":
                    # a NEW exception object that compares equal to the one thrown in (where the type allows)
                    raise type(exc)(*exc.args)
                elif handler == "return":
                    return
                elif handler == "yield-again":
                    try:
                        yield "HANDLER-VALUE"
                        log.append(("resumed-after-handler-yield",))
                    except BaseException as exc2:  # noqa: B902
                        log.append(("thrown-at-second-yield", type(exc2).__name__))
                        raise
                elif handler == "raise-StopAsyncIteration":
                    raise StopAsyncIteration("handler")
                elif handler == "raise-StopIteration":
                    raise StopIteration("handler")
                elif handler == "raise-RuntimeError":
                    raise RuntimeError("handler")
                elif handler in ("raise-cause", "raise-new-from-exc"):
                    raise New("handler") from exc
                elif handler == "raise-RuntimeError-from-exc":
                    raise RuntimeError("handler") from exc
        await pause("after")
        await tail()
        if after == "yield-again":
            try:
                yield "SECOND-VALUE"
                log.append(("resumed-after-second-yield",))
            except BaseException as exc2:  # noqa: B902
                log.append(("thrown-at-second-yield", type(exc2).__name__))
                raise

    return program


def classify_exc(exc, block_exc):
    if exc is block_exc:
        return ("block-object",)
    if block_exc is not None and type(exc) is type(block_exc) and exc.args == block_exc.args:
        return ("equal-copy-of-block-object", type(exc).__name__)
    if isinstance(exc, New):
        return ("planned", str(exc))
    msg = str(exc)
    if msg in ("same type", "handler"):
        return ("planned", type(exc).__name__, msg)
    return ("other", type(exc).__name__)


# arguments of the factory call / of the decorated function: also under names a wrapper might use itself
async def _a_callback(*args):
    """an argument that happens to be a coroutine function (an async report hook handed to the manager)"""


def _a_function(*args):
    """... or a plain function"""


CALLS = {"none": ((), {}), "pos": (("x", 2), {}), "kw": ((), {"a": 1}),
         # exactly one positional argument, and it is a (coroutine) function: still an ARGUMENT of the factory
         "pos-corofn": ((_a_callback,), {}), "pos-fn": ((_a_function,), {}),
         "kw-func": ((), {"func": "F"}), "kw-self": (("x",), {"self": "S", "func": "F"}),
         "kw-args": ((), {"args": (1,), "kwds": {"k": 1}, "cls": "C"})}


async def use(factory, case, log):
    if case.get("in_handler"):
        # the whole use happens while the task is handling an unrelated exception (sys.exc_info() is set)
        try:
            raise LookupError("unrelated, already being handled")
        except LookupError:
            return await _use(factory, case, log)
    return await _use(factory, case, log)


async def _use(factory, case, log):
    block = case["block"]
    block_exc = EXC[block](("block",)) if block != "normal" else None
    mode = case.get("use", "with")
    cargs, ckwargs = CALLS[case.get("call", "none")]
    factory = functools.partial(factory, *cargs, **ckwargs)
    try:
        if mode == "with":
            manager = factory()
            async with manager as bound:
                log.append(("bound", bound))
                if block_exc is not None:
                    raise block_exc
            if case.get("reuse") and block != "GeneratorExit":
                # a generator-based manager is single use: entering the used-up object again is refused (each
                # implementation with its own exception type) - it does not quietly run the setup a second time
                try:
                    async with manager:
                        log.append(("used-up-manager-entered-again",))
                except Exception:
                    log.append(("reuse-refused",))
        else:
            @factory()
            async def body(*args, **kwargs):
                log.append(("bound", "n/a", args, tuple(sorted(kwargs.items()))))
                if block_exc is not None:
                    raise block_exc
                return "body-result"

            bargs, bkwargs = CALLS[case.get("body_call", "none")]
            result = await body(*bargs, **bkwargs)
            log.append(("result", result))
    except BaseException as exc:  # noqa: B902
        return ("raise",) + classify_exc(exc, block_exc)
    return ("ok",)


async def deviation_model(program, case, log):
    """documented GeneratorExit behaviour: aclose() the generator; if that raises, that propagates,
    else the original object"""
    block_exc = GeneratorExit(("block",))
    cargs, ckwargs = CALLS[case.get("call", "none")]
    gen = program(*cargs, **ckwargs)
    try:
        try:
            bound = await gen.__anext__()
        except StopAsyncIteration:
            raise RuntimeError("generator did not yield") from None
        log.append(("bound", bound))
        try:
            await gen.aclose()
        except BaseException as exc:  # noqa: B902
            return ("raise",) + classify_exc(exc, block_exc)
        return ("raise", "block-object")
    except BaseException as exc:  # noqa: B902
        return ("raise",) + classify_exc(exc, block_exc)


def norm_log(log, block):
    out = []
    for e in log:
        if e[0] == "thrown-at-second-yield":
            continue  # contextlib closes a generator that did not stop, asyncstdlib leaves that to its owner
        if e[0] == "thrown" and e[1] == "GeneratorExit" and block != "GeneratorExit":
            continue  # cleanup close of a generator that did not stop: not a resume/throw of the protocol
        if e[0] == "finally" and block != "GeneratorExit":
            pass
        out.append(e)
    return out


class _CallableObject:
    """a generator function given as an object with __call__: no __name__, __qualname__, __doc__ of a function"""

    __slots__ = ("fn",)

    def __init__(self, fn):
        self.fn = fn

    def __call__(self, /, *args, **kwargs):
        return self.fn(*args, **kwargs)


class _Holder:
    def __init__(self, fn):
        self.fn = fn

    def method(self, /, *args, **kwargs):
        return self.fn(*args, **kwargs)


#: the forms in which a caller may hand over "a function that returns an async generator"
PROGRAM_FLAVOURS = {
    "def": lambda fn: fn,
    "partial": lambda fn: functools.partial(fn),
    "object": _CallableObject,
    "method": lambda fn: _Holder(fn).method,
    "lambda": lambda fn: (lambda *args, **kwargs: fn(*args, **kwargs)),
    # what it returns is a complete asynchronous generator, but not a native one (no ag_frame)
    "forwarding": forwarding,
}


def run_side(case, which):
    ctx = Ctx(which)
    log = []
    program = PROGRAM_FLAVOURS[case.get("given_as", "def")](make_program(case, ctx, log))
    with loop_mode(ctx, "hooks"):
        maker = a.contextmanager if which == "a" else contextlib.asynccontextmanager

        def composed(inner):
            # "wrapped": the manager is not used directly but from within ANOTHER generator-based manager of the same
            # kind that merely passes it through - what the inner one reports (also a protocol RuntimeError chained to
            # the block's exception) reaches the block's owner as if there were no wrapper
            if not case.get("wrapped") or case["block"] == "GeneratorExit":
                return inner

            async def passthrough(*args, **kwargs):
                async with inner(*args, **kwargs) as bound:
                    yield bound

            return maker(passthrough)

        if which == "a":
            coro = use(composed(a.contextmanager(program)), case, log)
        elif case["block"] == "GeneratorExit":
            coro = deviation_model(program, case, log)
        else:
            coro = use(composed(contextlib.asynccontextmanager(program)), case, log)
        outcome = run(ctx, coro)
        result = expect_return(outcome, "C13/program")
        if which == "a":
            # "resumes or throws into the generator exactly once": counted when the use is over, BEFORE the loop's
            # own finalizer gets to close a generator that was left suspended (that close is not the library's)
            contacts = [e for e in log if e[0] in ("resumed", "thrown", "resumed-after-handler-yield",
                                                   "resumed-after-second-yield", "thrown-at-second-yield")]
            if len(contacts) > 1 and case["block"] != "GeneratorExit":  # (aclose() is the interpreter's business)
                raise Violation("C13/generator-contacted-more-than-once", f"{describe(case)}: {contacts}")
            # every suspension of the user's generator is driven by the loop (C17): the library neither answers a
            # token itself nor lets one go unseen
            errs = ctx.protocol_errors()
            unseen = [s_.origin for s_ in ctx.issued if not s_.seen]
            if errs or unseen:
                raise Violation("C13/generator-suspension-not-driven-by-the-loop",
                                f"{describe(case)}: {errs[:2]} unseen={unseen[:2]}")
        close_orphans(ctx)
    return result, log


def check(case):
    if case.get("warnings") == "error":
        # the program runs with warnings turned into errors (python -W error, pytest's filterwarnings = error): the
        # library does not go through deprecated interfaces, so nothing changes
        import warnings

        with warnings.catch_warnings():
            warnings.simplefilter("error")
            warnings.filterwarnings("ignore", message="coroutine .* was never awaited")
            return _check(case)
    return _check(case)


def _check(case):
    got, alog = run_side(case, "a")
    want, slog = run_side(case, "s")
    block = case["block"]
    if got != want:
        raise Violation(f"C13/outcome-differs/{block}", f"{describe(case)}: asyncstdlib={got} reference={want}")
    na, ns = norm_log(alog, block), norm_log(slog, block)
    if block == "GeneratorExit":
        # the generator is closed rather than thrown into: it must see exactly one GeneratorExit
        if case["first"] == "yield" and case["handler"] not in ("none", "finally"):
            throws = [e for e in na if e[0] == "thrown"]
            if throws[:1] != [("thrown", "GeneratorExit")]:
                raise Violation("C13/generator-log-differs/GeneratorExit", f"{describe(case)}: {na}")
        na = [e for e in na if e[0] in ("started", "bound")]
        ns = [e for e in ns if e[0] in ("started", "bound")]
    if na != ns:
        raise Violation(f"C13/generator-log-differs/{block}", f"{describe(case)}: asyncstdlib={na} reference={ns}")


def describe(case):
    return "/".join(str(case[k]) for k in ("first", "handler", "after", "block", "susp") if k in case)


def table():
    out = []
    for first, handler, after, block, susp in itertools.product(FIRST, HANDLERS, AFTER, BLOCK, (0, 1)):
        out.append({"first": first, "handler": handler, "after": after, "block": block, "susp": susp})
    return out


def nontrivial(case):
    return case["first"] == "yield" and (case["handler"] != "none" or case["block"] != "normal")


@st.composite
def variations(draw):
    return {"first": draw(st.sampled_from(FIRST + ["yield", "yield"])),
            "handler": draw(st.sampled_from(HANDLERS + ["raise-cause", "raise-equal", "raise-equal"])),
            "after": draw(st.sampled_from(AFTER)),
            "block": draw(st.sampled_from(BLOCK + ["KeyError", "LookupError", "ValueError", "CustomBase",
                                                   "CustomRuntime", "CustomStop", "ValueEq", "ValueEq", "CustomGenExit", "CustomGenExit"])),
            "susp": draw(st.integers(0, 2)), "value": draw(st.sampled_from(["VALUE", None, 0, ""])),
            "use": draw(st.sampled_from(["with", "with", "decorator"])),
            "call": draw(st.sampled_from(sorted(CALLS))), "body_call": draw(st.sampled_from(sorted(CALLS))),
            "in_handler": draw(st.booleans()), "reuse": draw(st.sampled_from([False, False, True])),
            "warnings": draw(st.sampled_from(["default", "default", "error"])),
            "wrapped": draw(st.sampled_from([False, False, True])),
            "given_as": draw(st.sampled_from(sorted(PROGRAM_FLAVOURS) + ["def", "def"]))}


def check_variation(case):
    if case["block"] == "GeneratorExit" and case.get("use") == "decorator":
        case = dict(case, use="with")
    check(case)


def shards(tier):
    cases = table()
    k = 8
    out = [Shard(f"table-{j}", check, cases=(lambda part=cases[j::k]: part), nontrivial=nontrivial,
                 exhaustive=True) for j in range(k)]
    if tier == "thorough":
        out += [Shard(f"variations-{j}", check_variation, strategy=variations(), n=4000, nontrivial=nontrivial,
                      thorough_mult=1) for j in range(8)]
    else:
        out += [Shard(f"variations-{j}", check_variation, strategy=variations(), n=300, nontrivial=nontrivial)
                for j in range(4)]
    return out
