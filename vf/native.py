"""Native containers as sources (no doubles): ranges, strings, bytes, tuples, dict views, sets, deques, arrays,
memoryviews, and the one-shot iterators the builtins hand out.  A tool of the library must treat them like any other
iterable - in particular it must not take a short-cut (slicing, len(), copy methods) that changes what it delivers.

A case: {"tool", "kinds": [container kind per source], "data": [[ints] per source], "p": {...parameters}}.
``run_native(case)`` -> (library outcome, stdlib outcome) as comparable values.
"""
import array
import builtins
import collections
import heapq
import itertools
import operator

from hypothesis import strategies as st

from . import env
from .driver import Ctx, run
from .tools import _batched_ref, _accumulate_ref

env.setup()
import asyncstdlib as a  # noqa: E402

REITERABLE = ("range", "str", "bytes", "bytearray", "tuple", "list", "deque", "array", "memoryview", "dict",
              "dictkeys", "dictitems", "dictvalues", "set", "frozenset", "ordereddict", "strsub", "tuplesub")
ONESHOT = ("iter", "reversed", "genexpr", "mapobj", "zipobj", "enumobj", "filterobj", "chainobj", "isliceobj")
KINDS = REITERABLE + ONESHOT


class _Str(str):
    """a str subclass iterating in reverse (its own iteration protocol must be respected)"""

    def __iter__(self):
        return iter(str.__str__(self)[::-1])


class _Tup(tuple):
    def __iter__(self):
        return iter(tuple(reversed(tuple.__getitem__(self, slice(None)))))


def make(kind, data):
    """a fresh container / iterator of this kind over ``data`` (small non-negative ints)"""
    text = "".join(chr(97 + d % 6) for d in data)
    if kind == "range":
        start = data[0] % 5 if data else 0
        step = (data[1] % 3 + 1) if len(data) > 1 else 1
        return range(start, start + len(data) * step, step)
    simple = {
        "str": lambda: text, "strsub": lambda: _Str(text), "bytes": lambda: bytes(d % 256 for d in data),
        "bytearray": lambda: bytearray(d % 256 for d in data), "tuple": lambda: tuple(data),
        "tuplesub": lambda: _Tup(data), "list": lambda: list(data),
        "deque": lambda: collections.deque(data), "array": lambda: array.array("i", data),
        "memoryview": lambda: memoryview(bytes(d % 256 for d in data)),
        "dict": lambda: dict.fromkeys(data, 0), "ordereddict": lambda: collections.OrderedDict.fromkeys(data, 0),
        "dictkeys": lambda: dict.fromkeys(data, 0).keys(), "dictitems": lambda: {d: d + 1 for d in data}.items(),
        "dictvalues": lambda: dict(enumerate(data)).values(), "set": lambda: set(data),
        "frozenset": lambda: frozenset(data), "iter": lambda: iter(list(data)),
        "reversed": lambda: reversed(list(data)), "genexpr": lambda: (d for d in data),
        "mapobj": lambda: builtins.map(lambda d: d + 1, data), "zipobj": lambda: builtins.zip(data, text),
        "enumobj": lambda: builtins.enumerate(data), "filterobj": lambda: builtins.filter(None, data),
        "chainobj": lambda: itertools.chain(data, data[:1]), "isliceobj": lambda: itertools.islice(data, 1, None),
    }
    return simple[kind]()


def num(x):
    """an int for any item of any of the containers (for predicates and keys)"""
    if isinstance(x, int):
        return x
    if isinstance(x, str):
        return ord(x[0]) if x else 0
    if isinstance(x, (tuple, list)):
        return num(x[0]) if x else 0
    return 0


def _pred(k):
    return lambda x: num(x) % 4 != k


def _second(x, y):
    return y


TOOLS_N = {
    # name -> (number of sources, library call, stdlib call); S = list of sources, p = parameters
    "zip": (2, lambda S, p: a.zip(*S, strict=p["flag"]), lambda S, p: builtins.zip(*S, strict=p["flag"])),
    "zip3": (3, lambda S, p: a.zip(*S, strict=p["flag"]), lambda S, p: builtins.zip(*S, strict=p["flag"])),
    "map": (1, lambda S, p: a.map(num, S[0]), lambda S, p: builtins.map(num, S[0])),
    "map2": (2, lambda S, p: a.map(_second, *S), lambda S, p: builtins.map(_second, *S)),
    "filter": (1, lambda S, p: a.filter(_pred(p["k"]), S[0]), lambda S, p: builtins.filter(_pred(p["k"]), S[0])),
    "filter-none": (1, lambda S, p: a.filter(None, S[0]), lambda S, p: builtins.filter(None, S[0])),
    "filterfalse": (1, lambda S, p: a.filterfalse(_pred(p["k"]), S[0]),
                    lambda S, p: itertools.filterfalse(_pred(p["k"]), S[0])),
    "enumerate": (1, lambda S, p: a.enumerate(S[0], p["k"]), lambda S, p: builtins.enumerate(S[0], p["k"])),
    "islice": (1, lambda S, p: a.islice(S[0], *p["slice"]), lambda S, p: itertools.islice(S[0], *p["slice"])),
    "batched": (1, lambda S, p: a.batched(S[0], p["n"], strict=p["flag"]),
                lambda S, p: _batched_ref(S[0], p["n"], p["flag"])),
    "chain": (2, lambda S, p: a.chain(*S), lambda S, p: itertools.chain(*S)),
    "chain_from_iterable": (2, lambda S, p: a.chain.from_iterable(tuple(S)),
                            lambda S, p: itertools.chain.from_iterable(tuple(S))),
    "compress": (2, lambda S, p: a.compress(*S), lambda S, p: itertools.compress(*S)),
    "accumulate": (1, lambda S, p: a.accumulate(S[0], _second), lambda S, p: _accumulate_ref(S[0], _second, {})),
    "accumulate-initial": (1, lambda S, p: a.accumulate(S[0], _second, initial=p["k"]),
                           lambda S, p: itertools.accumulate(S[0], _second, initial=p["k"])),
    "takewhile": (1, lambda S, p: a.takewhile(_pred(p["k"]), S[0]), lambda S, p: itertools.takewhile(_pred(p["k"]), S[0])),
    "dropwhile": (1, lambda S, p: a.dropwhile(_pred(p["k"]), S[0]), lambda S, p: itertools.dropwhile(_pred(p["k"]), S[0])),
    "pairwise": (1, lambda S, p: a.pairwise(S[0]), lambda S, p: itertools.pairwise(S[0])),
    "zip_longest": (2, lambda S, p: a.zip_longest(*S, fillvalue=p["k"]),
                    lambda S, p: itertools.zip_longest(*S, fillvalue=p["k"])),
    "cycle": (1, lambda S, p: a.islice(a.cycle(S[0]), 9), lambda S, p: itertools.islice(itertools.cycle(S[0]), 9)),
    "merge": (2, lambda S, p: a.merge(*S, key=num, reverse=p["flag"] is True),
              lambda S, p: heapq.merge(*S, key=num, reverse=p["flag"] is True)),
    "merge-plain": (2, lambda S, p: a.merge(*S, reverse=p["flag"] is True),
                    lambda S, p: heapq.merge(*S, reverse=p["flag"] is True)),
    "starmap": (1, lambda S, p: a.starmap(lambda *xs: len(xs), a.map(lambda x: (x, x), S[0])),
                lambda S, p: itertools.starmap(lambda *xs: len(xs), builtins.map(lambda x: (x, x), S[0]))),
    "tee": (1, lambda S, p: a.chain(*a.tee(S[0], 2)), lambda S, p: itertools.chain(*itertools.tee(S[0], 2))),
    "list": (1, lambda S, p: a.list(S[0]), lambda S, p: builtins.list(S[0])),
    "tuple": (1, lambda S, p: a.tuple(S[0]), lambda S, p: builtins.tuple(S[0])),
    "set": (1, lambda S, p: a.set(S[0]), lambda S, p: builtins.set(S[0])),
    "dict-enum": (1, lambda S, p: a.dict(a.enumerate(S[0])), lambda S, p: builtins.dict(builtins.enumerate(S[0]))),
    "sorted": (1, lambda S, p: a.sorted(S[0], key=num, reverse=p["flag"] is True),
               lambda S, p: builtins.sorted(S[0], key=num, reverse=p["flag"] is True)),
    "min": (1, lambda S, p: a.min(S[0], key=num, default=p["k"]), lambda S, p: builtins.min(S[0], key=num, default=p["k"])),
    "max": (1, lambda S, p: a.max(S[0], key=num, default=p["k"]), lambda S, p: builtins.max(S[0], key=num, default=p["k"])),
    "sum-num": (1, lambda S, p: a.sum(a.map(num, S[0]), p["k"]), lambda S, p: builtins.sum(builtins.map(num, S[0]), p["k"])),
    "any": (1, lambda S, p: a.any(S[0]), lambda S, p: builtins.any(S[0])),
    "all": (1, lambda S, p: a.all(S[0]), lambda S, p: builtins.all(S[0])),
    "nlargest": (1, lambda S, p: a.nlargest(S[0], p["n"], key=num), lambda S, p: heapq.nlargest(p["n"], S[0], key=num)),
    "nsmallest": (1, lambda S, p: a.nsmallest(S[0], p["n"], key=num), lambda S, p: heapq.nsmallest(p["n"], S[0], key=num)),
    "reduce": (1, lambda S, p: a.reduce(_second, S[0], p["k"]),
               lambda S, p: __import__("functools").reduce(_second, S[0], p["k"])),
}
AGGREGATIONS = ("list", "tuple", "set", "dict-enum", "sorted", "min", "max", "sum-num", "any", "all", "nlargest",
                "nsmallest", "reduce")

_SLICES = st.one_of(
    st.tuples(st.one_of(st.none(), st.integers(0, 6))),
    st.tuples(st.one_of(st.none(), st.integers(0, 4)), st.one_of(st.none(), st.integers(0, 8))),
    st.tuples(st.one_of(st.none(), st.integers(0, 4)), st.one_of(st.none(), st.integers(0, 8)),
              st.one_of(st.none(), st.integers(1, 3))),
).map(list)


@st.composite
def native_cases(draw, tools):
    tool = draw(st.sampled_from(tools))
    nsrc = TOOLS_N[tool][0]
    lens = [draw(st.integers(0, 7)) for _ in range(nsrc)]
    return {"tool": tool, "kinds": [draw(st.sampled_from(KINDS)) for _ in range(nsrc)],
            "data": [draw(st.lists(st.integers(0, 9), min_size=n, max_size=n)) for n in lens],
            "p": {"flag": draw(st.sampled_from([True, False, 1, 0])), "k": draw(st.integers(0, 3)),
                  "n": draw(st.integers(1, 4)), "slice": draw(_SLICES)}}


def _norm(value):
    if isinstance(value, (set, frozenset)):
        return ("set", sorted(map(repr, value)))
    return (type(value).__name__, repr(value))


def run_native(case):
    tool, p = case["tool"], case["p"]
    _, lib, ref = TOOLS_N[tool]
    agg = tool in AGGREGATIONS

    def sources():
        return [make(k, d) for k, d in zip(case["kinds"], case["data"])]

    try:
        out = ref(sources(), p)
        want = ("return", _norm(out)) if agg else None
        if not agg:
            items = []
            try:
                for x in out:
                    items.append(_norm(x))
                want = ("items", items, "stop")
            except Exception as exc:
                want = ("items", items, type(exc).__name__)
    except Exception as exc:
        want = ("raise", type(exc).__name__)

    async def consume():
        made = lib(sources(), p)
        if agg:
            return ("return", _norm(await made))
        items = []
        try:
            async for x in made:
                items.append(_norm(x))
        except Exception as exc:
            return ("items", items, type(exc).__name__)
        return ("items", items, "stop")

    outcome = run(Ctx("a"), _guard(consume))
    got = outcome[1] if outcome[0] == "return" else ("crashed", repr(outcome[1]))
    return got, want


async def _guard(consume):
    try:
        return await consume()
    except Exception as exc:
        return ("raise", type(exc).__name__)


@st.composite
def interleaved_cases(draw, tools):
    """two native cases whose library iterators are alive at the same time and advanced alternately"""
    first = draw(native_cases(tools))
    # half of the pairs are two instances of the SAME tool family (zip / zip3, merge / merge-plain ...)
    family = [t for t in tools if t.split("-")[0].rstrip("23") == first["tool"].split("-")[0].rstrip("23")]
    second = draw(native_cases(family if draw(st.booleans()) else tools))
    return {"a": first, "b": second, "schedule": draw(st.lists(st.integers(0, 1), max_size=30))}


def _reference(case):
    _, _lib, ref = TOOLS_N[case["tool"]]
    items = []
    try:
        for x in ref([make(k, d) for k, d in zip(case["kinds"], case["data"])], case["p"]):
            items.append(_norm(x))
    except Exception as exc:
        return ("items", items, type(exc).__name__)
    return ("items", items, "stop")


def run_interleaved(case):
    """-> [(library outcome, stdlib outcome) for a, for b]: two instances of (possibly the same) tool must not
    influence each other - nothing about an instance is kept per class, per module or per process"""
    subs = [case["a"], case["b"]]

    async def consume():
        its, outs, ends = [], [[], []], [None, None]
        for sub in subs:
            try:
                its.append(TOOLS_N[sub["tool"]][1]([make(k, d) for k, d in zip(sub["kinds"], sub["data"])], sub["p"]))
            except Exception as exc:
                its.append(None)
                ends[len(its) - 1] = type(exc).__name__
        order = list(case["schedule"]) + [0, 1] * 40
        for pick in order:
            if all(e is not None for e in ends):
                break
            if ends[pick] is not None:
                continue
            try:
                outs[pick].append(_norm(await its[pick].__anext__()))
            except StopAsyncIteration:
                ends[pick] = "stop"
            except Exception as exc:
                ends[pick] = type(exc).__name__
        for it in its:
            if it is not None and hasattr(it, "aclose"):
                await it.aclose()
        return [("items", outs[k], ends[k]) for k in (0, 1)]

    outcome = run(Ctx("a"), consume())
    got = outcome[1] if outcome[0] == "return" else [("crashed", repr(outcome[1]))] * 2
    return [(got[k], _reference(subs[k])) for k in (0, 1)]


MUTABLE_KINDS = ("list", "deque", "dict", "set", "ordereddict", "bytearray")


@st.composite
def late_mutation_cases(draw, tools):
    case = draw(native_cases(tools))
    case["kinds"][0] = draw(st.sampled_from(MUTABLE_KINDS))
    case["extra"] = draw(st.integers(10, 15))
    return case


def _grow(container, extra):
    if isinstance(container, (dict, collections.OrderedDict)):
        container[extra] = 0
    elif isinstance(container, set):
        container.add(extra)
    else:
        container.append(extra)


def run_late_mutation(case):
    """the first source is a mutable container that the caller changes AFTER having created the library iterator and
    BEFORE asking it for anything: nothing has been asked of the container yet, so this is the same as having changed it
    before (both runs are the library's own: the stdlib counterparts take their iterators when they are created)"""
    tool, p = case["tool"], case["p"]
    _, lib, _ref = TOOLS_N[tool]

    def sources():
        return [make(k, d) for k, d in zip(case["kinds"], case["data"])]

    async def consume(late):
        S = sources()
        if not late:
            _grow(S[0], case["extra"])
        made = lib(S, p)
        if late:
            _grow(S[0], case["extra"])
        items = []
        try:
            async for x in made:
                items.append(_norm(x))
        except Exception as exc:
            return ("items", items, type(exc).__name__)
        return ("items", items, "stop")

    out = []
    for late in (True, False):
        outcome = run(Ctx("a"), _guard(lambda late=late: consume(late)))
        out.append(outcome[1] if outcome[0] == "return" else ("crashed", repr(outcome[1])))
    return out[0], out[1]
