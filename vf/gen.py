"""Hypothesis strategies producing JSON case descriptors for the tool table."""
from hypothesis import strategies as st

from .tools import TOOLS
from .doubles import argkey  # noqa: F401  (documented dependency: key tables index by uid)

EXC_NAMES = ["Fault", "TypeError", "ValueError", "AttributeError", "KeyError",
             "RuntimeError", "LookupError", "IndexError", "OSError", "AssertionError", "RecursionError",
             "NotImplementedError", "EOFError", "TimeoutError", "ZeroDivisionError"]

# a flag parameter is whatever the caller finds true or false, not only the two singletons
FLAG = st.sampled_from([True, False, True, False, 1, 0, "yes", ""])
# (list.sort insists on an integer, and merge is annotated bool and combines the flag with ^: nothing is claimed
# about flags that are not integers there)
INT_FLAG = st.sampled_from([True, False, True, False, 1, 0])

K = st.integers(0, 3).map(lambda k: ("K", k))  # placeholder: Item with this key


def _v(*alts):
    return st.sampled_from([list(a) for a in alts])


SPECIAL_ITEMS = st.sampled_from(["StopAsyncIteration", "StopIteration", "NotImplemented", "Ellipsis", "GeneratorExit",
                                 "object", "type", "KeyError", "IndexError", "StopAsyncIteration()",
                                 "StopAsyncIteration()", "StopIteration()", "GeneratorExit()", "KeyError()"]
                                ).map(lambda n: ["x", n])
TRUTHY_PRIMS = _v(["i", 0], ["i", 1], ["i", 2], ["s", ""], ["s", "x"], ["n"], ["n"], ["n"], ["b", True],
                  ["b", False], ["f", 0.0], ["f", 0.5], ["l", []], ["l", [["i", 0]]], ["t", []])
NUM_PRIMS = st.one_of(
    st.integers(-2, 5).map(lambda n: ["i", n]),
    st.integers(-8, 16).map(lambda n: ["f", n / 8]),
    st.booleans().map(lambda b: ["b", b]),
    st.tuples(st.integers(-4, 8), st.sampled_from([1, 2, 4, 8])).map(lambda t: ["F", t[0], t[1]]),
)

INEXACT_FLOATS = st.sampled_from([0.1, 0.2, 0.3, 0.7, 1.1, 1e16, -1e16, 1.0, 2.5, 1e-9]).map(lambda x: ["f", x])

def GR(*whats):
    return st.tuples(st.sampled_from(whats), st.sampled_from(["Grumpy", "TypeError", "ValueError", "AttributeError",
                                                             "KeyError"])).map(lambda t: ("GR", t[0], t[1]))


PROFILES = {
    "grumpy-bool": st.one_of(K, K, K, TRUTHY_PRIMS, GR("bool")),
    "grumpy-order": st.one_of(K, K, K, K, GR("lt")),
    "grumpy-eq": st.one_of(K, K, K, GR("eq")),
    # items with a MUTATING in-place add (lists have one, too): a tool must never use += on them
    "acc": st.one_of(K, st.integers(0, 3).map(lambda k: ("ACC", k))),
    "eq-all": st.one_of(K, K, TRUTHY_PRIMS, st.just(("EQ",))),
    "grumpy-hash": st.one_of(K, K, K, GR("hash", "eq")),
    "grumpy-add": st.one_of(K, K, K, GR("add")),
    # items whose repr()/str()/format() raises: error messages must not be built from the caller's items
    "unprintable": st.one_of(K, K, GR("repr")),
    "inexact": st.one_of(INEXACT_FLOATS, INEXACT_FLOATS, st.integers(-2, 5).map(lambda n: ["i", n])),
    "item": K,
    # infinities among exactly representable numbers: inf + x = inf, inf - inf = nan - for the builtin and for any
    # re-implementation of its summation
    "infinite": st.one_of(st.integers(-3, 6).map(lambda n: ["f", n / 2]), st.integers(-2, 3).map(lambda n: ["i", n]),
                          st.sampled_from([["inf", 1], ["inf", 1], ["inf", -1]])),  # (no huge finite floats: their sums are inexact,
                          # which is the known finding sum-float-compensation)
    # sums whose RESULT is an awaitable object (deferred values): a sum is data, whoever adds does not await it
    "aw-add": st.one_of(st.just(("AW",)), st.just(("AW",)), st.integers(0, 3).map(lambda n: ["i", n])),
    # not a total order: NaN among floats (one NaN object, possibly several times) - what a comparison sort or a
    # running minimum makes of it depends on the exact sequence of comparisons, which is the stdlib's
    "partial": st.one_of(st.integers(-4, 8).map(lambda n: ["f", n / 2]), st.integers(-4, 8).map(lambda n: ["f", n / 2]),
                         st.just(["nan"]), st.integers(-2, 3).map(lambda n: ["i", n])),
    # a class with only __lt__ plus functools.total_ordering and identity equality (ties: a > b and b > a)
    "ltonly": st.integers(0, 3).map(lambda k: ("LT", k)),
    "ltpure": st.integers(0, 2).map(lambda k: ("LTP", k)),
    # mixed truthiness; occasionally a data item that is itself awaitable (must never be awaited)
    "truthy": st.one_of(K, K, TRUTHY_PRIMS, TRUTHY_PRIMS, TRUTHY_PRIMS, st.just(("AW",)), SPECIAL_ITEMS),
    "num": st.one_of(NUM_PRIMS, NUM_PRIMS, NUM_PRIMS, K,
                     st.tuples(st.integers(-1, 2), st.integers(-1, 1)).map(lambda t: ["c", t[0], t[1]])),
    "lists": st.tuples(st.sampled_from(["l", "l", "l", "t"]),
                       st.lists(st.integers(0, 3).map(lambda n: ["i", n]), max_size=2)).map(list),
    "unorderable": st.one_of(K, K, K, K, _v(["s", "a"], ["c", 1, 1], ["n"], ["i", 1], ["f", 1.0])),
    "unorderable1": st.one_of(K, K, K, _v(["n"], ["s", "a"], ["n"])),
    "unhashable": st.one_of(K, K, NUM_PRIMS, _v(["l", []], ["i", 1], ["f", 1.0], ["b", True])),
}
_DICT_KEYS = st.one_of(K, _v(["i", 0], ["i", 1], ["f", 1.0], ["b", True], ["s", "a"], ["s", "b"],
                            ["s", "k0"], ["n"]))
PROFILES["pairs"] = st.one_of(
    st.tuples(_DICT_KEYS, K).map(lambda t: ["t", [t[0], t[1]]]),
    st.tuples(_DICT_KEYS, K).map(lambda t: ["t", [t[0], t[1]]]),
    st.tuples(_DICT_KEYS, K).map(lambda t: ["t", [t[0], t[1]]]),
    st.tuples(_DICT_KEYS, K).map(lambda t: ["l", [t[0], t[1]]]),
    st.tuples(_DICT_KEYS, K).map(lambda t: ["it", [t[0], t[1]]]),
    _v(["it", [["i", 1]]], ["it", [["i", 1], ["i", 2], ["i", 3]]], ["it", []]),
    _v(["t", [["l", []], ["i", 1]]], ["t", [["i", 1]]], ["t", [["i", 1], ["i", 2], ["i", 3]]],
       ["i", 5], ["s", "ab"]),
)


class Uids:
    def __init__(self):
        self.n = 0

    def fix(self, v):
        """Replace ("K", key) placeholders by Items with fresh uids (("GR", what) by Grumpy items)."""
        if isinstance(v, tuple) and v and v[0] == "K":
            self.n += 1
            return ["I", v[1], self.n - 1]
        if isinstance(v, tuple) and v and v[0] == "GR":
            self.n += 1
            return ["G", v[1], self.n - 1, v[2] if len(v) > 2 else "Grumpy"]
        if isinstance(v, tuple) and v and v[0] == "AW":
            self.n += 1
            return ["W", self.n - 1]
        if isinstance(v, tuple) and v and v[0] == "ACC":
            self.n += 1
            return ["A", v[1], self.n - 1]
        if isinstance(v, tuple) and v and v[0] == "LT":
            self.n += 1
            return ["L", v[1], self.n - 1]
        if isinstance(v, tuple) and v and v[0] == "LTP":
            self.n += 1
            return ["LP", v[1], self.n - 1]
        if isinstance(v, tuple) and v and v[0] == "EQ":
            self.n += 1
            return ["E", self.n - 1]
        if isinstance(v, (list, tuple)) and v and v[0] in ("t", "l", "it"):
            return [v[0], [self.fix(x) for x in v[1]]]
        if isinstance(v, (list, tuple)) and v and v[0] == "d":
            return ["d", [[k, self.fix(x)] for k, x in v[1]]]
        return list(v) if isinstance(v, tuple) else v


def fn_spec(kind):
    if kind == "derive":
        return st.sampled_from(["derive"] * 5 + ["late-aw", "typeof"]).map(
            lambda k: {"kind": k, "fl": "def", "susp": 0, "fault": None})
    if kind == "oddkey":
        # keys ordered through < only; == says "equal to everything" or raises
        mode = st.sampled_from(["all", "raise"])
        return st.tuples(mode, st.lists(st.integers(0, 2), min_size=1, max_size=5)).map(
            lambda t: {"kind": "table", "table": [["O", k, t[0]] for k in t[1]], "fl": "def", "susp": 0,
                       "fault": None})
    if kind == "pred":
        table = st.lists(TRUTHY_PRIMS, min_size=1, max_size=6)
    else:  # key
        table = st.lists(st.integers(0, 2).map(lambda n: ["i", n]), min_size=1, max_size=5)
    return table.map(lambda t: {"kind": "table", "table": t, "fl": "def", "susp": 0, "fault": None})


def _role_kind(role, fnkind):
    if fnkind == "derive":
        return "derive"
    return "pred" if role == "pred" else "key"


def table_key(spec, item):
    """Key the 'key' double assigns to an Item descriptor (mirrors doubles.Fn)."""
    table = spec["table"]
    return table[(item[2]) % len(table)][1]


_EDGE0 = st.sampled_from([0, 0, 1])  # boundary values get their own weight
ISLICE_ARGS = st.one_of(
    st.tuples(st.one_of(st.none(), _EDGE0, st.integers(0, 9))),
    st.tuples(st.one_of(st.none(), _EDGE0, st.integers(0, 6)), st.one_of(st.none(), _EDGE0, st.integers(0, 9))),
    st.tuples(st.one_of(st.none(), _EDGE0, st.integers(0, 6)), st.one_of(st.none(), _EDGE0, st.integers(0, 9)),
              st.one_of(st.none(), st.integers(1, 4))),
).map(list)


@st.composite
def base_case(draw, name, max_len=8, max_src=4, steps="full", min_len=0, min_src=0, aliasing=False):
    """A fault-free case with default flavours (async generator sources, def callables)."""
    tool = TOOLS[name]
    uids = Uids()
    lo, hi = tool.nsrc
    n = draw(st.integers(max(lo, min(min_src, hi)), min(hi, max_src)))
    profile = draw(st.sampled_from(tool.profiles))
    if profile == "tuples":
        arity = draw(st.integers(0, 3))
        # an argument "tuple" may be any iterable of arguments - a dict, too: f(*d) gets its KEYS
        elem = st.one_of(st.lists(K, min_size=arity, max_size=arity).map(lambda xs: ["t", xs]),
                         st.lists(K, min_size=arity, max_size=arity).map(lambda xs: ["t", xs]),
                         st.lists(K, min_size=arity, max_size=arity).map(
                             lambda xs: ["d", [[f"k{j}", x] for j, x in enumerate(xs)]]))
    else:
        elem = PROFILES[profile]
    srcs = []
    for i in range(n):
        e = elem
        if name == "compress" and i == 1:
            e = PROFILES["truthy"]
        items = [uids.fix(x) for x in draw(st.lists(e, min_size=min_len, max_size=max(max_len, min_len)))]
        if i >= 1 and aliasing and draw(st.integers(0, 5)) == 0:
            # the very same iterator object is passed again (the zip(*[it]*n) grouper idiom)
            srcs.append({"items": [], "fl": "agen", "susp": 0, "csusp": False, "fault": None,
                         "alias": draw(st.integers(0, i - 1))})
            continue
        srcs.append({"items": items, "fl": "agen", "susp": 0, "csusp": False, "fault": None})
    # all items with raising special methods of one case raise the SAME exception type, and a case has at most
    # one object whose comparison raises on each side of a comparison: WHICH operand's method is asked first is
    # an implementation detail (iter() asks the sentinel, asyncstdlib the value; heaps differ likewise)
    gexc = None
    for s_ in srcs:
        for it in s_["items"]:
            if it[0] == "G":
                gexc = gexc or it[3]
                it[3] = gexc
    if profile == "unorderable1":
        # exactly one unorderable stranger among orderable items
        for s_ in srcs:
            seen = False
            for pos, it in enumerate(s_["items"]):
                if it[0] != "I":
                    if seen:
                        s_["items"][pos] = uids.fix(("K", 1))
                    seen = True
    if name in ("nlargest", "nsmallest"):
        # complex numbers are unorderable but may be EQUAL to another item (0 == 0j, 1+1j == 1+1j): whether equal
        # unorderable items are ever asked for "<" depends on the algorithm (heapq itself differs between its
        # n >= len and n < len paths), so at most one complex, never equal to a real number
        seen = False
        for s_ in srcs:
            for pos, it in enumerate(s_["items"]):
                if it[0] == "c":
                    if seen:
                        s_["items"][pos] = ["i", it[1]]
                    elif it[2] == 0:
                        it[2] = 1
                    seen = True
    fns = {}
    for role, fnkind in tool.roles:
        fns[role] = draw(fn_spec(_role_kind(role, fnkind)))
    for role, fnkind in tool.optional_roles:
        if draw(st.booleans()):
            fns[role] = draw(fn_spec(_role_kind(role, fnkind)))
            if role == "key" and name in ("sorted", "min", "max") and draw(st.integers(0, 5)) == 0:
                fns[role] = draw(fn_spec("oddkey"))
            elif role == "key" and name in ("sorted", "min", "max", "nlargest", "nsmallest") and draw(st.integers(0, 5)) == 0:
                fns[role]["kind"] = "bycall"  # keys that depend on the order of the calls
    if any(f.get("kind") == "typeof" for f in fns.values()) and profile in ("truthy", "item") and srcs \
            and srcs[-1]["items"] and srcs[-1].get("alias") is None and name != "merge" and draw(st.booleans()):
        # the FIRST result of the callable is the class of an awaitable object
        srcs[-1]["items"][0] = uids.fix(("AW",))
    params = {}
    v = {}
    total = sum(len(s["items"]) for s in srcs)
    longest = max([len(s["items"]) for s in srcs], default=0)

    def value_of_profile():
        return uids.fix(draw(elem))

    if name == "zip":
        params["strict"] = draw(FLAG)
    elif name == "enumerate":
        params["start"] = draw(st.integers(-2, 5))
    elif name == "iter_sentinel":
        items = srcs[0]["items"]
        if items and draw(st.booleans()):
            target = items[draw(st.integers(0, len(items) - 1))]
            sentinel = uids.fix(("K", target[1])) if target[0] == "I" else target
        else:
            sentinel = value_of_profile()
        if profile == "eq-all" or sentinel[0] == "G":
            sentinel = draw(st.sampled_from([["n"], ["s", "never"], ["i", 77]]))
        if profile == "num" and draw(st.integers(0, 3)) == 0:
            # the sentinel is a value that is not equal to itself: "equal to the sentinel" includes "is the sentinel"
            sentinel = ["nan"]
            items.insert(draw(st.integers(0, len(items))), ["nan"])
        v["sentinel"] = sentinel
        srcs[0]["tail"] = uids.fix(("K", sentinel[1])) if sentinel[0] == "I" else sentinel
        srcs[0]["fl"] = "def"
    elif name == "accumulate":
        choice = draw(st.integers(0, 7))
        if choice < 4:
            v["initial"] = value_of_profile()
        elif choice == 4:
            v["initial"] = uids.fix(("EQ",))  # an initial value that is equal to everything
        elif choice == 5:
            v["initial"] = uids.fix(("GR", "eq", "ValueError"))  # ... or that cannot be compared
    elif name == "batched":
        params["n"] = draw(st.integers(1, 5))
        params["strict"] = draw(FLAG)
    elif name == "chain_from_iterable":
        params["outer"] = {"fl": "agen", "susp": 0, "csusp": False, "fault": None}
    elif name == "islice":
        params["args"] = draw(ISLICE_ARGS)
    elif name == "tee":
        params["n"] = draw(st.integers(0, 4))
    elif name == "zip_longest":
        if draw(st.booleans()):
            v["fillvalue"] = draw(st.one_of(st.just(["n"]), K.map(uids.fix), st.just(["s", "fill"]),
                                            st.just(("EQ",)).map(uids.fix), st.just(("GR", "eq", "ValueError")).map(uids.fix)))
    elif name == "merge":
        params["reverse"] = draw(INT_FLAG)
        for s in srcs:
            if s.get("alias") is not None:
                continue
            if "key" in fns:
                keyf = lambda it: table_key(fns["key"], it)  # noqa: E731
            else:
                keyf = lambda it: it[1]  # noqa: E731
            # items whose comparison raises stay where they were drawn; the others are sorted around them
            plain = sorted((it for it in s["items"] if it[0] != "G"), key=keyf, reverse=params["reverse"])
            merged, k = [], 0
            for it in s["items"]:
                if it[0] == "G":
                    merged.append(it)
                else:
                    merged.append(plain[k])
                    k += 1
            s["items"] = merged
    elif name == "sum":
        choice = draw(st.integers(0, 3))
        if choice:
            if profile == "lists":
                v["start"] = draw(st.sampled_from([["l", []], ["l", [["i", 9]]], ["t", []], ["i", 0]]))
            elif profile == "inexact":
                v["start"] = draw(st.sampled_from([["i", 0], ["f", 0.0], ["f", 0.5], ["i", 3]]))
            elif profile == "item":
                v["start"] = draw(st.sampled_from([("K", 1), ("A", 1), ["i", 2]]))
                if v["start"][0] == "K":
                    v["start"] = uids.fix(v["start"])
                elif v["start"][0] == "A":
                    uids.n += 1
                    v["start"] = ["A", 1, uids.n - 1]
            else:
                v["start"] = draw(NUM_PRIMS)
    elif name in ("min", "max"):
        choice = draw(st.integers(0, 4))
        if choice == 1:
            v["default"] = ["n"]
        elif choice == 2:
            v["default"] = uids.fix(("K", draw(st.integers(0, 3))))
        elif choice == 3:
            v["default"] = uids.fix(("EQ",))  # a default that is equal to everything
        elif choice == 4 and profile != "grumpy-order":
            v["default"] = uids.fix(("GR", "eq", "ValueError"))  # ... or that cannot be compared
    elif name == "dict":
        kw = draw(st.dictionaries(st.sampled_from(["a", "b", "k0", "zz"]), K.map(uids.fix), max_size=2))
        if kw:
            v["kw"] = kw
    elif name == "sorted":
        params["reverse"] = draw(INT_FLAG)
    elif name == "reduce":
        choice = draw(st.integers(0, 5))
        if choice == 1:
            v["initial"] = uids.fix(("K", draw(st.integers(0, 3))))
        elif choice == 2:
            v["initial"] = ["n"]
        elif choice == 3:
            v["initial"] = uids.fix(("EQ",))  # an explicit initial that is equal to everything
        elif choice == 4:
            v["initial"] = uids.fix(("GR", "eq", "ValueError"))  # ... or that cannot be compared at all
        elif choice == 5 and draw(st.booleans()):
            v["initial"] = uids.fix(("AW",))  # a handle (awaitable object) as the start value: data, as in functools
    elif name == "reduce_builtin":
        params["op"] = draw(st.sampled_from(["add", "max", "add", "none"]))
        if params["op"] == "none" and draw(st.booleans()):
            srcs[0]["items"] = srcs[0]["items"][:draw(st.integers(0, 1))]
        if draw(st.integers(0, 2)) == 0:
            v["initial"] = draw(st.sampled_from([["i", 0], ["i", 5], ["l", []], ["f", 0.5]]))
    elif name in ("nlargest", "nsmallest"):
        params["n"] = draw(st.integers(-1, longest + 2)) if longest < 10 else draw(st.integers(2, longest))
        if "key" in fns and fns["key"].get("kind") == "table" and longest >= 2 and draw(st.integers(0, 6)) == 0:
            # every key is the same unorderable value (None) and there are more items than n: the first late item
            # has to be compared with the worst kept one, which heapq does with "<" (TypeError)
            fns["key"]["table"] = [["n"]]
            params["n"] = draw(st.integers(1, longest - 1))
    if v:
        params["v"] = v

    if name in ("zip", "map", "chain", "chain_from_iterable", "islice", "batched", "enumerate", "tee", "pairwise",
                "zip_longest", "compress", "cycle", "filter", "filterfalse", "takewhile", "dropwhile", "list", "tuple") \
            and profile in ("item", "truthy") and draw(st.integers(0, 3)) == 0:
        # None is everybody's favourite "nothing there" marker: make sure it occurs as an ordinary item, and in
        # the places where it matters (last item of a source, surplus item of the longest source)
        cands = [s_ for s_ in srcs if s_.get("alias") is None and s_["items"]]
        if cands:
            s_ = cands[draw(st.integers(0, len(cands) - 1))]
            pos = draw(st.sampled_from([len(s_["items"]) - 1, len(s_["items"]) - 1, draw(st.integers(0, len(s_["items"]) - 1))]))
            s_["items"][pos] = ["n"]
    if name not in ("iter_sentinel", "dict", "starmap") and profile in ("item", "truthy", "num") and draw(st.integers(0, 5)) == 0:
        # the identical object occurs twice in a row in one source
        cands = [s_ for s_ in srcs if s_.get("alias") is None and s_["items"]]
        if cands:
            s_ = cands[draw(st.integers(0, len(cands) - 1))]
            pos = draw(st.integers(1, len(s_["items"])))
            if not (name in ("nlargest", "nsmallest") and s_["items"][pos - 1][0] == "c"):  # (one complex at most)
                s_["items"].insert(pos, ["same"])
                total += 1
                longest = max(longest, len(s_["items"]))
    if any(f.get("kind") == "bycall" for f in fns.values()) and draw(st.booleans()):
        # keys by call order AND one object at two places: the two occurrences have different keys
        cands = [s_ for s_ in srcs if s_.get("alias") is None and len(s_["items"]) >= 2]
        if cands:
            s_ = cands[draw(st.integers(0, len(cands) - 1))]
            pos = draw(st.integers(2, len(s_["items"])))
            j = draw(st.integers(0, pos - 2))
            if s_["items"][j][0] not in ("c", "same"):
                s_["items"].insert(pos, ["same", j])
                total += 1
                longest = max(longest, len(s_["items"]))
    if name in ("min", "max", "reduce", "accumulate", "zip_longest") and total and draw(st.integers(0, 5)) == 0 \
            and profile in ("item", "truthy", "num", "unorderable", "lists"):
        # default / initial / fill value that is the very OBJECT of one of the items (a cached zero, an interned
        # string, the first row): "nothing there yet" must never be encoded as "is the default"
        pname = {"min": "default", "max": "default", "reduce": "initial", "accumulate": "initial",
                 "zip_longest": "fillvalue"}[name]
        v = params.setdefault("v", {})
        v[pname] = ["itemref", draw(st.integers(0, max(total - 1, 0)))]
    # consumer plan
    if tool.kind == "agg":
        plan = []
    elif tool.multi_out:
        k = params["n"]
        plan = draw(st.lists(st.integers(0, max(k - 1, 0)), max_size=(k + 1) * (longest + 2))) if k else []
    else:
        full = total + 3 if not tool.infinite else 3 * total + 3
        if name == "accumulate":
            full += 1
        if steps == "full" and not tool.infinite:
            nsteps = full
        else:
            nsteps = draw(st.integers(0, full))
        plan = [0] * nsteps
    return {"tool": name, "profile": profile, "srcs": srcs, "fns": fns, "params": params,
            "plan": plan, "close": True}


# ---- transformations applied on top of a base case --------------------------


def source_names(desc):
    names = [f"s{i}" for i in range(len(desc["srcs"]))]
    if TOOLS[desc["tool"]].outer:
        names.append("outer")
    return names


def features(desc):
    """Structural facts about a case, used for the non-triviality rules."""
    srcs = desc["srcs"]
    lens = [len(s["items"]) for s in srcs]
    keys = []
    for s in srcs:
        for it in s["items"]:
            if it[0] in ("I", "A"):
                keys.append(it[1])
            elif it[0] == "t":
                keys.extend(x[1] for x in it[1] if x and x[0] == "I")
    p = desc.get("params") or {}
    nondefault = bool(
        p.get("strict") or p.get("reverse") or p.get("v") or desc.get("fns")
        or p.get("start") or (p.get("args") and len(p["args"]) > 1) or p.get("n")
    )
    return {
        "max_len": max(lens, default=0),
        "total": sum(lens),
        "nsrc": len(srcs),
        "tie": len(keys) != len(set(keys)),
        "unequal": len(set(lens)) > 1,
        "nondefault": nondefault,
        "empty_input": any(n == 0 for n in lens),
    }
