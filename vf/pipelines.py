"""Compositions of tools (pipelines): T3(T2(T1(source))) against the same stdlib composition.

Used by C01 (same items / ending), C05 (same pulls) and C04 (source released when the outermost
iterator is closed after j items, exhausted, or fails).
"""
import inspect
import itertools
import heapq

from hypothesis import strategies as st

from . import env
from .gen import K, Uids
from .values import sig, mats
from .driver import Ctx, run, loop_mode, close_orphans
from .doubles import make_source

env.setup()
import asyncstdlib as a  # noqa: E402


class StageError(Exception):
    pass


def _last(*args):
    return args[-1]


def _pred(k, boom=None):
    def fn(item):
        key = _key(item)
        if boom is not None and key == boom:
            raise StageError(boom)
        return key != k

    return fn


def _key(item):
    while isinstance(item, tuple):
        item = item[-1] if item else 0
    return getattr(item, "key", item if isinstance(item, int) else 0)


# name -> (async stage(it, k), sync stage(it, k))
STAGES = {
    "islice": (lambda it, k: a.islice(it, k + 1), lambda it, k: itertools.islice(it, k + 1)),
    "islice-step": (lambda it, k: a.islice(it, 1, None, k + 1), lambda it, k: itertools.islice(it, 1, None, k + 1)),
    "map": (lambda it, k: a.map(_last, it), lambda it, k: map(_last, it)),
    "filter": (lambda it, k: a.filter(_pred(k), it), lambda it, k: filter(_pred(k), it)),
    "filter-raises": (lambda it, k: a.filter(_pred(9, boom=k), it), lambda it, k: filter(_pred(9, boom=k), it)),
    "filterfalse": (lambda it, k: a.filterfalse(_pred(k), it), lambda it, k: itertools.filterfalse(_pred(k), it)),
    "takewhile": (lambda it, k: a.takewhile(_pred(k), it), lambda it, k: itertools.takewhile(_pred(k), it)),
    "dropwhile": (lambda it, k: a.dropwhile(_pred(k), it), lambda it, k: itertools.dropwhile(_pred(k), it)),
    "enumerate": (lambda it, k: a.enumerate(it, k), lambda it, k: enumerate(it, k)),
    "batched": (lambda it, k: a.batched(it, k + 1), lambda it, k: itertools.batched(it, k + 1)),
    "pairwise": (lambda it, k: a.pairwise(it), lambda it, k: itertools.pairwise(it)),
    "accumulate": (lambda it, k: a.accumulate(it, _last), lambda it, k: _acc(it)),
    "chain": (lambda it, k: a.chain([k], it), lambda it, k: itertools.chain([k], it)),
    "chain-from": (lambda it, k: a.chain.from_iterable(a.batched(it, k + 1)),
                   lambda it, k: itertools.chain.from_iterable(itertools.batched(it, k + 1))),
    "zip-range": (lambda it, k: a.zip(range(k + 1), it), lambda it, k: zip(range(k + 1), it)),
    "zip-strict": (lambda it, k: a.zip(it, range(k + 1), strict=True), lambda it, k: zip(it, range(k + 1), strict=True)),
    "zip_longest": (lambda it, k: a.zip_longest(it, range(k)), lambda it, k: itertools.zip_longest(it, range(k))),
    "compress": (lambda it, k: a.compress(it, itertools.cycle([1, 0, 1][:k + 1])),
                 lambda it, k: itertools.compress(it, itertools.cycle([1, 0, 1][:k + 1]))),
    "starmap": (lambda it, k: a.starmap(_last, a.zip(it)), lambda it, k: itertools.starmap(_last, zip(it))),
    "merge": (lambda it, k: a.merge(it, key=lambda x: 0), lambda it, k: heapq.merge(it, key=lambda x: 0)),
    "tee0": (lambda it, k: a.tee(it, 1)[0], lambda it, k: itertools.tee(it, 1)[0]),
    "cycle-islice": (lambda it, k: a.islice(a.cycle(it), 2 * k + 3), lambda it, k: itertools.islice(itertools.cycle(it), 2 * k + 3)),
    "borrow": (lambda it, k: a.borrow(a.iter(it)), lambda it, k: iter(it)),
}


def _acc(it):
    # accumulate of an empty input raises TypeError in asyncstdlib (documented deviation)
    inner = itertools.accumulate(it, _last)

    def gen():
        try:
            first = next(inner)
        except StopIteration:
            raise TypeError("accumulate() of empty sequence with no initial value") from None
        yield first
        yield from inner

    return gen()


@st.composite
def pipelines(draw, max_depth=3, faults=False):
    uids = Uids()
    items = [uids.fix(x) for x in draw(st.lists(K, max_size=8))]
    names = sorted(STAGES)
    stages = draw(st.lists(st.tuples(st.sampled_from(names), st.integers(0, 3), st.sampled_from([0, 0, 0, 1, 2])),
                           min_size=2, max_size=max_depth))
    # third component: how many items the CALLER takes from that stage's iterator before passing it on
    return {"items": items, "stages": [list(s) for s in stages],
            "fl": draw(st.sampled_from(["agen", "aclass", "aplain", "list", "iter", "aproxy", "areiter", "seq"])),
            "take": draw(st.one_of(st.none(), st.integers(0, 10))),
            "csusp": draw(st.booleans()), "mode": draw(st.sampled_from(["hooks", "bare"]))}


def run_both(case):
    """returns (async events, sync events, async source double, async close errors)"""
    ctx_a, ctx_s = Ctx("a"), Ctx("s")
    fl = case["fl"]
    src_a = make_source(ctx_a, "s0", mats(case["items"]), {"fl": fl, "csusp": case.get("csusp", False)}, "a")
    src_s = make_source(ctx_s, "s0", mats(case["items"]), {}, "s")
    limit = case["take"] if case["take"] is not None else 60
    close_errors = []
    made, info = [], {}
    run_both.info = info

    async def consume():
        it = src_a.obj
        events = []
        dead = False
        for stage in case["stages"]:
            name, k, pre = stage[0], stage[1], (stage[2] if len(stage) > 2 else 0)
            it = STAGES[name][0](it, k)
            made.append(it)
            for _ in range(pre):
                # a partly consumed library iterator is then handed to the next tool
                try:
                    events.append(("pre", sig(await it.__anext__())))
                except StopAsyncIteration:
                    events.append(("pre-stop",))
                    dead = True
                    break
                except Exception as exc:
                    events.append(("pre-raise", type(exc).__name__))
                    dead = True
                    break
            if dead:
                break  # what an iterator does AFTER it raised differs between generators and C iterators
        for _ in range(limit if not dead else 0):
            try:
                events.append(("item", sig(await it.__anext__())))
            except StopAsyncIteration:
                events.append(("stop",))
                break
            except Exception as exc:
                events.append(("raise", type(exc).__name__))
                break
        # a generator-based tool that was never advanced owes nothing to what it was given (closing it does not
        # run it): everything upstream of such a stage is then out of the closing consumer's reach
        info["unstarted_stage"] = any(inspect.isasyncgen(g) and inspect.getasyncgenstate(g) == inspect.AGEN_CREATED
                                      for g in made)
        closer = getattr(it, "aclose", None)
        if closer is not None:
            try:
                await closer()
            except BaseException as exc:  # noqa: B902
                close_errors.append(repr(exc)[:120])
        return events

    with loop_mode(ctx_a, case.get("mode", "hooks")):
        outcome = run(ctx_a, consume())
        released = src_a.released
        close_orphans(ctx_a)
    it = src_s.obj
    events_s = []
    dead_s = False
    try:
        for stage in case["stages"]:
            name, k, pre = stage[0], stage[1], (stage[2] if len(stage) > 2 else 0)
            it = STAGES[name][1](it, k)
            for _ in range(pre):
                try:
                    events_s.append(("pre", sig(next(it))))
                except StopIteration:
                    events_s.append(("pre-stop",))
                    dead_s = True
                    break
                except Exception as exc:
                    events_s.append(("pre-raise", type(exc).__name__))
                    dead_s = True
                    break
            if dead_s:
                break
    except Exception as exc:
        events_s.append(("raise", type(exc).__name__))
        it = None
    if it is not None and not dead_s:
        for _ in range(limit):
            try:
                events_s.append(("item", sig(next(it))))
            except StopIteration:
                events_s.append(("stop",))
                break
            except Exception as exc:
                events_s.append(("raise", type(exc).__name__))
                break
    return outcome, events_s, src_a, ctx_a, ctx_s, released, close_errors
