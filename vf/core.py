"""Build doubles from a case descriptor, run one side, return the observations.

A *case descriptor* for the tool table is plain JSON:

  {"tool": "zip",
   "srcs": [{"items": [valdesc...], "fl": "agen", "susp": 0, "csusp": false,
             "fault": null | {"at": k, "exc": "ValueError"}}, ...],
   "fns":  {"pred": {"kind": "table", "table": [valdesc...], "fl": "def",
                     "susp": 0, "fault": null}},
   "params": {..., "v": {"fillvalue": valdesc, ...}, "outer": {srcspec}},
   "plan": [0, 0, ...]      # which output the consumer advances at each step
   "close": true}
"""
import os

from . import env
from .values import mat, mats, sig
from .driver import Ctx, run, loop_mode
from .doubles import make_source, Fn, CallSource
from .tools import TOOLS


class Built:
    __slots__ = ("tool", "ctx", "srcs", "fns", "S", "F", "P", "V", "outs", "handle",
                 "outer", "result", "side", "advanced", "extra")


def _matv(v):
    out = {}
    for k, d in v.items():
        if isinstance(d, dict):
            out[k] = {kk: mat(dd) for kk, dd in d.items()}
        else:
            out[k] = mat(d)
    return out


def build(desc, side, ctx=None):
    tool = TOOLS[desc["tool"]]
    ctx = ctx or Ctx(side)
    b = Built()
    b.tool, b.ctx, b.side = tool, ctx, side
    ctx.built = b  # (a callable double may act on the sources of its own case, see "grows_source")
    b.srcs = []
    for i, s in enumerate(desc["srcs"]):
        if s.get("alias") is not None:
            b.srcs.append(b.srcs[s["alias"]])  # the very same object once more
            continue
        items = mats(s["items"])
        if tool.name == "any_iter" and s.get("fl") in ("iter_awaitable", "aclass_awaitable"):
            # (resolving an awaitable argument is what any_iter is FOR: there the plain flavour stands in)
            s = dict(s, fl="iter" if s["fl"] == "iter_awaitable" else "aclass")
        if tool.callsrc:
            src = CallSource(ctx, f"s{i}", items, s, side, mat(s["tail"]))
        else:
            src = make_source(ctx, f"s{i}", items, s, side)
        b.srcs.append(src)
    b.fns = {}
    for role, spec in (desc.get("fns") or {}).items():
        b.fns[role] = Fn(ctx, role, spec, mats(spec.get("table") or []), side)
    b.F = {role: f.callable for role, f in b.fns.items()}
    b.P = desc.get("params") or {}
    b.V = _matv({k: d for k, d in (b.P.get("v") or {}).items() if not (isinstance(d, list) and d[:1] == ["itemref"])})
    for k, d in (b.P.get("v") or {}).items():
        if isinstance(d, list) and d[:1] == ["itemref"]:
            # the parameter IS one of the items (the very object): a default / initial / fill value taken from the data
            pool = [it for s_ in b.srcs for it in getattr(s_, "items", [])]
            b.V[k] = pool[d[1] % len(pool)] if pool else None
    b.outer = None
    if tool.callsrc:
        b.S = [s.callable for s in b.srcs]
    elif tool.outer:
        b.outer = make_source(ctx, "outer", [s.obj for s in b.srcs], b.P.get("outer") or {}, side)
        b.outer.item_sigs = [("src", s.name) for s in b.srcs]
        b.S = [b.outer.obj]
    else:
        b.S = [s.obj for s in b.srcs]
    b.outs = None
    b.handle = None
    b.result = None
    return b


def planned_name(ctx, exc):
    for name, planned in ctx.planned.items():
        if planned is exc:
            return name
    return None


def ev_raise(ctx, out, exc):
    name = type(exc).__name__
    planned = planned_name(ctx, exc)
    if planned is not None and name in ("StopIteration", "StopAsyncIteration"):
        name = "Stop"  # a planned protocol exception of a user callable: same role on both sides
    ctx.ev("raise", out, name, planned)


# ---- consumers -------------------------------------------------------------


async def consume_a(b, plan, close, keep=None):
    """Asynchronous consumer for iterator tools (library side).  ``keep``: a list that collects every
    yielded object so that their signatures can be taken AGAIN at the end (a tool that keeps mutating an
    object it already handed out is visible only then)."""
    ctx = b.ctx
    try:
        made = b.tool.make_a(b.S, b.F, b.P, b.V)
    except Exception as exc:  # construction-time error == raises before any item
        ev_raise(ctx, 0, exc)
        return
    b.handle = made
    outs = list(made) if b.tool.multi_out else [made]
    b.outs = outs
    done = [False] * len(outs)
    for o in plan:
        if isinstance(o, list) and o[0] == "mutate":
            mutate_source(b, o)
            continue
        if isinstance(o, list) and o[0] == "reiter":
            # the consumer starts another loop over the same iterator: aiter() of an iterator is that iterator
            if o[1] < len(outs) and outs[o[1]] is not None and hasattr(outs[o[1]], "__aiter__"):
                again = outs[o[1]].__aiter__()
                if again is not outs[o[1]]:
                    ctx.ev("yield", o[1], ("aiter-returned-another-object",))
                outs[o[1]] = again
            continue
        if isinstance(o, list) and o[0] == "again":
            # an iterator that FAILED is asked again (library side only: the stdlib counterparts differ in what
            # they do then); whatever it answers, it must not touch a source or a callable to do so
            if o[1] < len(outs) and done[o[1]] == "raise":
                ctx.ev("again-begin", o[1])
                try:
                    value = await outs[o[1]].__anext__()
                except StopAsyncIteration:
                    ctx.ev("again", o[1], "stop")
                except BaseException as exc:  # noqa: B902
                    ctx.ev("again", o[1], "raise", type(exc).__name__)
                else:
                    ctx.ev("again", o[1], "yield")
                    del value
                ctx.ev("again-end", o[1])
            continue
        if isinstance(o, list) and o[0] == "repoll":
            # an iterator that reported exhaustion is asked again: it must still be exhausted
            if o[1] < len(outs) and done[o[1]] == "stop":
                try:
                    value = await outs[o[1]].__anext__()
                except StopAsyncIteration:
                    ctx.ev("stop", o[1])
                except BaseException as exc:  # noqa: B902
                    ev_raise(ctx, o[1], exc)
                    done[o[1]] = True
                else:
                    ctx.ev("yield", o[1], sig(value))
                    del value
            continue
        if isinstance(o, list):  # ["close", child]: close one output early, its siblings continue
            if o[1] < len(outs) and not done[o[1]]:
                closer = getattr(outs[o[1]], "aclose", None)
                if closer is not None:
                    await closer()
                done[o[1]] = True
                ctx.ev("closed", o[1])
            continue
        if o >= len(outs) or done[o]:
            continue
        try:
            value = await outs[o].__anext__()
        except StopAsyncIteration:
            ctx.ev("stop", o)
            done[o] = "stop"
        except BaseException as exc:  # noqa: B902 - recorded as data
            ev_raise(ctx, o, exc)
            done[o] = "raise"
        else:
            ctx.ev("yield", o, sig(value))
            if keep is not None:
                keep.append(value)
            del value
    if keep is not None:
        ctx.ev("kept", 0, tuple(sig(v) for v in keep), tuple(sig(s_.items) for s_ in b.srcs if hasattr(s_, "items")))
    if close:
        await aclose_outs(b)


async def aclose_outs(b):
    ctx = b.ctx
    targets = [b.handle] if (b.tool.multi_out and hasattr(b.handle, "aclose")) else (b.outs or [])
    for it in targets:
        closer = getattr(it, "aclose", None)
        if closer is None:
            continue
        try:
            await closer()
        except BaseException as exc:  # noqa: B902
            ctx.ev("close-raise", type(exc).__name__, planned_name(ctx, exc), str(exc)[:100])


def consume_s(b, plan, keep=None):
    """Synchronous consumer for the stdlib reference."""
    ctx = b.ctx
    try:
        made = b.tool.make_s(b.S, b.F, b.P, b.V)
    except Exception as exc:
        ev_raise(ctx, 0, exc)
        return
    outs = list(made) if b.tool.multi_out else [made]
    b.outs = outs
    done = [False] * len(outs)
    for o in plan:
        if isinstance(o, list) and o[0] == "mutate":
            mutate_source(b, o)
            continue
        if isinstance(o, list) and o[0] == "again":
            continue
        if isinstance(o, list) and o[0] == "reiter":
            if o[1] < len(outs) and outs[o[1]] is not None:
                outs[o[1]] = iter(outs[o[1]])
            continue
        if isinstance(o, list) and o[0] == "repoll":
            if o[1] < len(outs) and done[o[1]] == "stop":
                try:
                    value = next(outs[o[1]])
                except StopIteration:
                    ctx.ev("stop", o[1])
                except Exception as exc:
                    ev_raise(ctx, o[1], exc)
                    done[o[1]] = True
                else:
                    ctx.ev("yield", o[1], sig(value))
                    del value
            continue
        if isinstance(o, list):  # the stdlib counterpart of closing a child is dropping it
            if o[1] < len(outs) and not done[o[1]]:
                outs[o[1]] = None
                done[o[1]] = True
                ctx.ev("closed", o[1])
            continue
        if o >= len(outs) or done[o]:
            continue
        try:
            value = next(outs[o])
        except StopIteration:
            ctx.ev("stop", o)
            done[o] = "stop"
        except Exception as exc:
            ev_raise(ctx, o, exc)
            done[o] = True
        else:
            ctx.ev("yield", o, sig(value))
            if keep is not None:
                keep.append(value)
            del value
    if keep is not None:
        ctx.ev("kept", 0, tuple(sig(v) for v in keep), tuple(sig(s_.items) for s_ in b.srcs if hasattr(s_, "items")))


async def await_a(b):
    ctx = b.ctx
    try:
        value = await b.tool.make_a(b.S, b.F, b.P, b.V)
    except BaseException as exc:  # noqa: B902
        ev_raise(ctx, 0, exc)
    else:
        b.result = value
        ctx.ev("return", 0, sig(value))


def call_s(b):
    ctx = b.ctx
    try:
        value = b.tool.make_s(b.S, b.F, b.P, b.V)
    except Exception as exc:
        ev_raise(ctx, 0, exc)
    else:
        b.result = value
        ctx.ev("return", 0, sig(value))


def run_async(desc, mode="hooks", cancel_at=None, cancel_exc=None, close=None):
    """Run the library side of a tool-table case; returns (Built, outcome)."""
    b = build(desc, "a")
    plan = desc.get("plan") or []
    close = desc.get("close", True) if close is None else close
    with loop_mode(b.ctx, mode):
        if b.tool.kind == "iter":
            keep = [] if desc.get("keep") else None
            outcome = run(b.ctx, consume_a(b, plan, close, keep), cancel_at, cancel_exc)
        else:
            outcome = run(b.ctx, await_a(b), cancel_at, cancel_exc)
    return b, outcome


def run_sync(desc):
    b = build(desc, "s")
    plan = desc.get("plan") or []
    if b.tool.kind == "iter":
        consume_s(b, plan, [] if desc.get("keep") else None)
    else:
        call_s(b)
    return b


CONSUMER_EVENTS = ("yield", "stop", "raise", "return", "closed", "kept", "mutated")
IGNORED_FOR_TRACE = ("close", "close-raise") if __import__("os").environ.get("VF_STRICT_REPULL") else ("repull", "close", "close-raise")
# WHEN a tool asks a re-iterable source for its iterator ("open") is compared only where laziness of opening is
# the stdlib's documented behaviour
OPEN_ORDER_TOOLS = ("chain", "chain_from_iterable")


def mutate_source(b, op):
    """["mutate", source index, how, uid]: the caller changes the list it handed to the tool"""
    from .values import Item

    _, i, how, uid = op
    lst = b.srcs[i].obj if i != "outer" else (b.outer.obj if b.outer is not None else None)
    if not isinstance(lst, list):
        return
    # (what is appended to the OUTER list of chain.from_iterable is one more - small - iterable)
    if how == "append":
        lst.append(Item(1, uid) if i != "outer" else [Item(1, uid)])
    elif how == "insert0":
        lst.insert(0, Item(2, uid) if i != "outer" else [Item(2, uid)])
    elif how == "pop" and lst:
        lst.pop()
    elif how == "clear":
        lst.clear()
    b.ctx.ev("mutated", i, how)


def generators_closed_by_tool(b):
    """names of the caller's synchronous generators that the library closed (the stdlib only ever advances them)"""
    return [s_.name for s_ in b.srcs if getattr(s_, "closed_by_tool", False)]


def consumer_view(log):
    return [e for e in log if e[0] in CONSUMER_EVENTS]


def trace_view(log, opens=False):
    out = [e for e in log if e[0] not in IGNORED_FOR_TRACE and (opens or e[0] != "open")]
    while out and out[-1][0] == "open":
        out.pop()  # opened but never asked for an item: not observable through the items
    return out


def first_diff(xs, ys):
    for i, (x, y) in enumerate(zip(xs, ys)):
        if x != y:
            return i, x, y
    if len(xs) != len(ys):
        i = min(len(xs), len(ys))
        return i, (xs[i] if i < len(xs) else None), (ys[i] if i < len(ys) else None)
    return None


class HarnessError(RuntimeError):
    """The harness' own scenario crashed: never a VIOLATION, always exit status 2."""


def expect_return(outcome, bucket, case=None):
    """A scenario coroutine records library exceptions as data and must itself return.
    raise => bug in the harness (exit 2); deadlock/livelock => violation of the property."""
    from .runner import Violation

    if outcome[0] == "return":
        return outcome[1]
    if outcome[0] == "raise":
        exc = outcome[1]
        # Where did it come from?  An exception that passed through a frame of the library at a place where the
        # scenario expects none (closing a group, asking for statistics, entering a scope ...) is the library doing
        # something it does not do on the unchanged tree - that is a finding, not a crash of the harness.
        tb, through_library = getattr(exc, "__traceback__", None), False
        lib = os.path.join(env.REPO, "asyncstdlib") + os.sep
        while tb is not None:
            if tb.tb_frame.f_code.co_filename.startswith(lib):
                through_library = True
                break
            tb = tb.tb_next
        if through_library:
            raise Violation(f"{bucket}/unexpected-exception-out-of-the-library", f"{exc!r}", case=case) from exc
        raise HarnessError(f"scenario crashed: {exc!r}") from exc
    raise Violation(f"{bucket}/{outcome[0]}", repr(outcome), case=case)
