"""Item universe: JSON <-> live objects, and value signatures.

A *value descriptor* is a small JSON list:

  ["I", key, uid]      Item: ordered / compared / hashed by ``key`` only, told apart by ``uid``
  ["i", n] ["b", t] ["f", x] ["s", "txt"] ["n"] ["F", num, den] ["c", re, im]
  ["t", [v...]]  tuple      ["l", [v...]]  list (unhashable, mutable)
  ["A", key, uid]      Acc: like Item but additionally defines ``__iadd__`` (mutating)

``sig(obj)`` maps a live object to a hashable, comparable signature.  For Items
the signature contains the uid, so equal signatures <=> the very same object
(uids are unique inside one case); for primitives it contains the type, so 1,
1.0 and True are told apart.
"""
from fractions import Fraction


class Item:
    """Equal-yet-distinguishable value.  Everything observable by the code
    under test (order, equality, hash, truthiness, +) depends on ``key`` only."""

    __slots__ = ("key", "uid", "__weakref__")

    def __init__(self, key, uid):
        self.key = key
        self.uid = uid

    def __repr__(self):
        return f"Item({self.key!r},{self.uid!r})"

    def __lt__(self, other):
        if not isinstance(other, Item):
            return NotImplemented
        return self.key < other.key

    def __le__(self, other):
        if not isinstance(other, Item):
            return NotImplemented
        return self.key <= other.key

    def __gt__(self, other):
        if not isinstance(other, Item):
            return NotImplemented
        return self.key > other.key

    def __ge__(self, other):
        if not isinstance(other, Item):
            return NotImplemented
        return self.key >= other.key

    def __eq__(self, other):
        if not isinstance(other, Item):
            return NotImplemented
        return self.key == other.key

    def __ne__(self, other):
        if not isinstance(other, Item):
            return NotImplemented
        return self.key != other.key

    def __hash__(self):
        return hash(("Item", self.key))

    def __bool__(self):
        return bool(self.key)

    def __add__(self, other):
        if isinstance(other, Item):
            return Item(self.key + other.key, ("+", self.uid, other.uid))
        if isinstance(other, int):
            return Item(self.key + other, ("+", self.uid, ("i", other)))
        return NotImplemented

    def __radd__(self, other):
        if isinstance(other, int):
            return Item(other + self.key, ("+", ("i", other), self.uid))
        return NotImplemented


class Acc(Item):
    """An Item with an *in-place* add that mutates ``self``: a tool that uses
    ``+=`` on a start value changes the caller's object (visible in ``log``)."""

    __slots__ = ("log",)

    def __init__(self, key, uid):
        super().__init__(key, uid)
        self.log = []

    def __iadd__(self, other):
        self.log.append(sig(other))
        self.key = self.key + (other.key if isinstance(other, Item) else other)
        return self


class GrumpyError(Exception):
    """raised by a Grumpy item's special method"""


class Grumpy:
    """An item one of whose special methods raises: ["G", what, uid] with what in
    bool | lt | eq | hash | add | repr.  Both the library and the stdlib must let that error through."""

    __slots__ = ("what", "uid", "exc", "__weakref__")

    ERRORS = {"Grumpy": GrumpyError, "TypeError": TypeError, "ValueError": ValueError,
              "AttributeError": AttributeError, "KeyError": KeyError}

    def __init__(self, what, uid, exc="Grumpy"):
        self.what, self.uid, self.exc = what, uid, exc

    def __repr__(self):
        self._maybe("repr")  # (an item nobody may print: no tool has a reason to format the caller's items)
        return f"Grumpy({self.what},{self.uid},{self.exc})"

    def _maybe(self, what):
        if self.what == what:
            # library code that guards its own TypeError / ValueError / AttributeError must not eat these
            raise self.ERRORS[self.exc](what)

    def __bool__(self):
        self._maybe("bool")
        return True

    def __lt__(self, other):
        self._maybe("lt")
        return False

    def __gt__(self, other):
        self._maybe("lt")
        return False

    def __eq__(self, other):
        self._maybe("eq")
        return self is other

    def __ne__(self, other):
        self._maybe("eq")
        return self is not other

    def __hash__(self):
        self._maybe("hash")
        return 7

    def __add__(self, other):
        self._maybe("add")
        return self

    def __radd__(self, other):
        self._maybe("add")
        return self


class AwaitedDataError(Exception):
    """somebody awaited an object that was only ever passed around as DATA"""


class AwaitableItem:
    """["W", uid]: a data item that happens to be awaitable (like a Future stored in a list).
    Tools must hand it through untouched; awaiting it is an error of the code under test."""

    __slots__ = ("uid", "awaited", "__weakref__")

    def __init__(self, uid):
        self.uid = uid
        self.awaited = 0

    def __repr__(self):
        return f"AwaitableItem({self.uid})"

    def __await__(self):
        self.awaited += 1
        raise AwaitedDataError(self.uid)
        yield  # pragma: no cover

    # handles can be combined (a symbolic / deferred sum): the result is another handle - data, like its operands
    def __add__(self, other):
        return AwaitableItem(("+", self.uid, getattr(other, "uid", other)))

    def __radd__(self, other):
        return AwaitableItem(("+", getattr(other, "uid", other), self.uid))


class EqAll:
    """["E", uid]: an object that claims to be equal to everything (like unittest.mock.ANY or a null object
    equal to None); equality must be asked of the VALUE, never decided by identity"""

    __slots__ = ("uid", "__weakref__")

    def __init__(self, uid):
        self.uid = uid

    def __repr__(self):
        return f"EqAll({self.uid})"

    def __eq__(self, other):
        return True

    def __ne__(self, other):
        return False

    def __hash__(self):
        return 1


class OddKey:
    """["O", k, mode]: ordered by k through < and >, but == is unhelpful: mode "all" says equal to
    everything, mode "raise" raises.  Sorting and min/max only ever need < (or >)."""

    __slots__ = ("k", "mode")

    def __init__(self, k, mode):
        self.k, self.mode = k, mode

    def __repr__(self):
        return f"OddKey({self.k},{self.mode})"

    def __lt__(self, other):
        return self.k < other.k

    def __gt__(self, other):
        return self.k > other.k

    def __eq__(self, other):
        if self.mode == "raise":
            raise GrumpyError("eq")
        return True

    def __ne__(self, other):
        if self.mode == "raise":
            raise GrumpyError("eq")
        return False

    __hash__ = None


class _ExactKey:
    __slots__ = ("k",)

    def __init__(self, k):
        self.k = k

    def __eq__(self, other):
        return isinstance(other, _ExactKey) and self.k == other.k

    def __ne__(self, other):
        return not (isinstance(other, _ExactKey) and self.k == other.k)

    def __hash__(self):
        return 0


class CoarseKey(_ExactKey):
    """["NE", k]: a subclass that widens ``==`` (keys 2n and 2n+1 are equal: case-insensitive names, rounded values)
    and inherits a spelled-out ``!=`` that still compares exactly.  ``==`` is reflexive, symmetric and transitive;
    ``!=`` is simply another question - whoever groups "equal keys" has to ask ``==``, as itertools does"""

    __slots__ = ()

    def __repr__(self):
        return f"CoarseKey({self.k})"

    def __eq__(self, other):
        return isinstance(other, CoarseKey) and self.k // 2 == other.k // 2


class TolKey:
    """["T", k]: a key equal to every key at distance <= 1: reflexive and symmetric, NOT transitive"""

    __slots__ = ("k",)

    def __init__(self, k):
        self.k = k

    def __repr__(self):
        return f"TolKey({self.k})"

    def __eq__(self, other):
        return isinstance(other, TolKey) and abs(self.k - other.k) <= 1

    def __ne__(self, other):
        return not self.__eq__(other)

    def __hash__(self):
        return 0


import functools as _functools


class Verdict:
    """the result of a comparison that is good for truth testing only (like numpy.bool_ without arithmetic, or the
    expression objects of symbolic libraries): rich comparisons may return any object, consumers call bool() on it"""

    __slots__ = ("value",)

    def __init__(self, value):
        self.value = value

    def __bool__(self):
        return self.value

    def __repr__(self):
        return f"Verdict({self.value})"


@_functools.total_ordering
class LtOnly:
    """["L", key, uid]: a class that defines only ``__lt__`` (by key) and gets the other comparisons from
    functools.total_ordering, with IDENTITY equality: for two distinct items of equal key neither is ``<`` the other,
    yet each is ``>`` (and ``!=``) the other - ``a > b`` is not ``b < a`` here"""

    __slots__ = ("key", "uid")

    def __init__(self, key, uid):
        self.key, self.uid = key, uid

    def __repr__(self):
        return f"LtOnly({self.key},{self.uid})"

    def __lt__(self, other):
        if not isinstance(other, LtOnly):
            return NotImplemented
        return Verdict(self.key < other.key)

    __hash__ = object.__hash__


class LtPure:
    """["LP", key, uid]: ``__lt__`` and nothing else (no total_ordering): ``a > b`` IS ``b < a`` here, equality is
    identity - a consistent weak order whose ties are not ``==`` (what sort() and heapq ask for: only ``<``)"""

    __slots__ = ("key", "uid")

    def __init__(self, key, uid):
        self.key, self.uid = key, uid

    def __repr__(self):
        return f"LtPure({self.key},{self.uid})"

    def __lt__(self, other):
        if not isinstance(other, LtPure):
            return NotImplemented
        return Verdict(self.key < other.key)

    __hash__ = object.__hash__


class StrictKey:
    """["SK", k]: a key that only knows how to compare itself with its own kind: ``==`` with anything else raises
    (like a version or a unit-carrying quantity)"""

    __slots__ = ("k",)

    def __init__(self, k):
        self.k = k

    def __repr__(self):
        return f"StrictKey({self.k})"

    def __eq__(self, other):
        if not isinstance(other, StrictKey):
            raise TypeError(f"cannot compare StrictKey with {type(other).__name__}")
        return self.k == other.k

    def __ne__(self, other):
        return not self.__eq__(other)

    def __hash__(self):
        return hash(self.k)


def mat(v):
    """Materialise a value descriptor into a fresh live object."""
    t = v[0]
    if t == "O":
        return OddKey(v[1], v[2])
    if t == "SK":
        return StrictKey(v[1])
    if t == "L":
        return LtOnly(v[1], v[2])
    if t == "LP":
        return LtPure(v[1], v[2])
    if t == "T":
        return TolKey(v[1])
    if t == "NE":
        return CoarseKey(v[1])
    if t == "E":
        return EqAll(v[1])
    if t == "W":
        return AwaitableItem(v[1])
    if t == "G":
        return Grumpy(v[1], v[2], v[3] if len(v) > 3 else "Grumpy")
    if t == "I":
        return Item(v[1], v[2])
    if t == "A":
        return Acc(v[1], v[2])
    if t == "i":
        return int(v[1])
    if t == "b":
        return bool(v[1])
    if t == "f":
        return float(v[1])
    if t == "s":
        return str(v[1])
    if t == "n":
        return None
    if t == "nan":
        return NAN  # ONE object per process: identity is what makes a NaN "the same" value
    if t == "F":
        return Fraction(v[1], v[2])
    if t == "c":
        return complex(v[1], v[2])
    if t == "t":
        return tuple(mat(x) for x in v[1])
    if t == "it":
        return iter([mat(x) for x in v[1]])  # a lazy, one-shot sequence without len()
    if t == "l":
        return [mat(x) for x in v[1]]
    if t == "d":
        return {k: mat(x) for k, x in v[1]}  # ["d", [[str key, value descriptor], ...]]: a dict item
    if t == "inf":
        return float("inf") if v[1] > 0 else float("-inf")
    if t == "x":
        return SPECIALS[v[1]]
    raise ValueError(f"bad value descriptor {v!r}")


#: ["x", name]: singletons and classes that code is tempted to use as in-band markers ("nothing there", "done") -
#: as DATA they are items like any other
SPECIALS = {"StopAsyncIteration": StopAsyncIteration, "StopIteration": StopIteration, "NotImplemented": NotImplemented,
            "Ellipsis": Ellipsis, "GeneratorExit": GeneratorExit, "object": object, "type": type,
            "KeyError": KeyError, "IndexError": IndexError,
            # ... and exception INSTANCES (what gather(return_exceptions=True) or a result queue hands around)
            "StopAsyncIteration()": StopAsyncIteration(), "StopIteration()": StopIteration("a value"),
            "GeneratorExit()": GeneratorExit(), "KeyError()": KeyError("k")}


def mats(vs):
    """materialise a list of descriptors; ``["same"]`` stands for the very same OBJECT as its predecessor (a reader
    that recycles one record object, interned values)"""
    out = []
    for v in vs:
        if v and v[0] == "same" and out:
            # ["same"]: the predecessor again; ["same", j]: the object at position j (modulo what is there) again
            out.append(out[-1] if len(v) < 2 else out[v[1] % len(out)])
        elif v and v[0] == "same":
            continue
        else:
            out.append(mat(v))
    return out


NAN = float("nan")


def sig(o):
    """Hashable signature of a live object (see module docstring)."""
    if o is NAN:
        return ("nan",)
    if isinstance(o, Acc):
        return ("A", o.key, _uid(o.uid), tuple(o.log))
    if isinstance(o, Item):
        return ("I", o.key, _uid(o.uid))
    if isinstance(o, Grumpy):
        return ("G", o.what, o.uid, o.exc)
    if isinstance(o, AwaitableItem):
        return ("W", _uid(o.uid))
    if isinstance(o, EqAll):
        return ("E", o.uid)
    if isinstance(o, OddKey):
        return ("O", o.k, o.mode)
    if isinstance(o, CoarseKey):
        return ("NE", o.k)
    if isinstance(o, TolKey):
        return ("T", o.k)
    if isinstance(o, StrictKey):
        return ("SK", o.k)
    if isinstance(o, LtPure):
        return ("LP", o.key, _uid(o.uid))
    if isinstance(o, LtOnly):
        return ("L", o.key, _uid(o.uid))
    if o is None:
        return ("n",)
    for name_, special in SPECIALS.items():
        if o is special:
            return ("x", name_)
    tp = type(o)
    if tp in (bool, int, float, str, complex, Fraction, bytes):
        return (tp.__name__, repr(o))
    if tp is tuple:
        return ("t", tuple(sig(x) for x in o))
    if tp is list:
        return ("l", tuple(sig(x) for x in o))
    if tp in (set, frozenset):
        return (tp.__name__, tuple(sorted((sig(x) for x in o), key=repr)))
    if tp is dict:
        return ("d", tuple((sig(k), sig(x)) for k, x in o.items()))
    if isinstance(o, BaseException):
        return ("exc", tp.__name__)
    if isinstance(o, type):
        return ("class", o.__name__)
    custom = getattr(o, "__vsig__", None)
    if custom is not None:
        return custom()
    return ("obj", tp.__name__)


def _uid(u):
    if isinstance(u, (list, tuple)):
        return tuple(_uid(x) for x in u)
    return u


def jsonable(s):
    """Turn a signature (nested tuples) into JSON-friendly nested lists."""
    if isinstance(s, tuple):
        return [jsonable(x) for x in s]
    return s


def all_uids(vs):
    """uids of the Items in a list of value descriptors (top level and nested)."""
    out = []
    for v in vs:
        if v[0] in ("I", "A", "G"):
            out.append(v[2])
        elif v[0] in ("t", "l", "it"):
            out.extend(all_uids(v[1]))
    return out
