"""The tool table: every iterator tool / aggregation with its stdlib reference.

``TOOLS[name]`` describes how to build the asynchronous object under test and
the synchronous reference from the *same* case descriptor.  Builders receive

  S  list of source objects (or the 0-ary callable for ``iter_sentinel``)
  F  dict role -> callable (absent role => not given)
  P  plain parameters (JSON)
  V  materialised value parameters (start, initial, default, fillvalue, ...)
"""
import builtins
import functools
import heapq
import itertools
import operator

from . import env

env.setup()
import asyncstdlib as a  # noqa: E402


class Tool:
    def __init__(self, name, kind, nsrc, make_a, make_s, roles=(), optional_roles=(),
                 profiles=("item", "truthy", "unprintable"), infinite=False, callsrc=False, outer=False,
                 multi_out=False, window=0, streaming=True):
        self.name = name
        self.kind = kind  # "iter" | "agg"
        self.nsrc = nsrc
        self.make_a = make_a
        self.make_s = make_s
        self.roles = tuple(roles)  # (role, fnkind, arity)
        self.optional_roles = tuple(optional_roles)
        self.profiles = tuple(profiles)
        self.infinite = infinite
        self.callsrc = callsrc
        self.outer = outer
        self.multi_out = multi_out
        self.window = window
        self.streaming = streaming


# ---- references written out where the stdlib of 3.12 has no direct namesake ----


def _accumulate_ref(src, fn, V):
    """itertools.accumulate plus the documented deviation: empty input without
    initial raises TypeError instead of yielding nothing."""
    kwargs = {"initial": V["initial"]} if "initial" in V else {}
    inner = itertools.accumulate(src, fn if fn is not None else operator.add, **kwargs)

    def gen():
        try:
            first = next(inner)
        except StopIteration:
            if "initial" not in V:
                raise TypeError("accumulate() of empty sequence with no initial value") from None
            return
        yield first
        yield from inner

    return gen()


def _batched_ref(src, n, strict):
    """itertools.batched; ``strict`` is the documented 3.13 rule (3.12 lacks it)."""
    if not strict:
        return itertools.batched(src, n)

    def gen():
        iterator = iter(src)
        while batch := tuple(itertools.islice(iterator, n)):
            if len(batch) != n:
                raise ValueError("batched(): incomplete batch")
            yield batch

    return gen()


def _kw(**kwargs):
    return {k: v for k, v in kwargs.items() if v is not _ABSENT}


_ABSENT = object()


def _opt(V, name):
    return V[name] if name in V else _ABSENT


def _positional_opt(V, name):
    return (V[name],) if name in V else ()


TOOLS = {}


def _reg(tool):
    TOOLS[tool.name] = tool


I, T, N = "item", "truthy", "num"

_reg(Tool("zip", "iter", (0, 8),
          lambda S, F, P, V: a.zip(*S, strict=P["strict"]),
          lambda S, F, P, V: builtins.zip(*S, strict=P["strict"])))
_reg(Tool("map", "iter", (1, 4),
          lambda S, F, P, V: a.map(F["fn"], *S),
          lambda S, F, P, V: builtins.map(F["fn"], *S),
          roles=(("fn", "derive"),)))
_reg(Tool("filter", "iter", (1, 1),
          lambda S, F, P, V: a.filter(F.get("pred"), S[0]),
          lambda S, F, P, V: builtins.filter(F.get("pred"), S[0]),
          optional_roles=(("pred", "table"),), profiles=(I, T, 'grumpy-bool')))
_reg(Tool("enumerate", "iter", (1, 1),
          lambda S, F, P, V: a.enumerate(S[0], P["start"]),
          lambda S, F, P, V: builtins.enumerate(S[0], P["start"])))
_reg(Tool("iter_sentinel", "iter", (1, 1),
          lambda S, F, P, V: a.iter(S[0], V["sentinel"]),
          lambda S, F, P, V: builtins.iter(S[0], V["sentinel"]),
          callsrc=True, profiles=(I, N, 'grumpy-eq', 'eq-all')))
_reg(Tool("accumulate", "iter", (1, 1),
          lambda S, F, P, V: (a.accumulate(S[0], F["fn"], **_kw(initial=_opt(V, "initial")))
                              if "fn" in F else
                              a.accumulate(S[0], **_kw(initial=_opt(V, "initial")))),
          lambda S, F, P, V: _accumulate_ref(S[0], F.get("fn"), V),
          optional_roles=(("fn", "derive"),), profiles=(I, N, 'grumpy-add', "lists", "acc", "aw-add", "infinite")))
_reg(Tool("batched", "iter", (1, 1),
          lambda S, F, P, V: a.batched(S[0], P["n"], strict=P["strict"]),
          lambda S, F, P, V: _batched_ref(S[0], P["n"], P["strict"]),
          window=None))
_reg(Tool("chain", "iter", (0, 8),
          lambda S, F, P, V: a.chain(*S),
          lambda S, F, P, V: itertools.chain(*S)))
_reg(Tool("chain_from_iterable", "iter", (0, 4),
          lambda S, F, P, V: a.chain.from_iterable(S[0]),
          lambda S, F, P, V: itertools.chain.from_iterable(S[0]),
          outer=True))
_reg(Tool("compress", "iter", (2, 2),
          lambda S, F, P, V: a.compress(S[0], S[1]),
          lambda S, F, P, V: itertools.compress(S[0], S[1]),
          profiles=(I, T, 'grumpy-bool')))
_reg(Tool("cycle", "iter", (1, 1),
          lambda S, F, P, V: a.cycle(S[0]),
          lambda S, F, P, V: itertools.cycle(S[0]),
          infinite=True, streaming=False))
_reg(Tool("dropwhile", "iter", (1, 1),
          lambda S, F, P, V: a.dropwhile(F["pred"], S[0]),
          lambda S, F, P, V: itertools.dropwhile(F["pred"], S[0]),
          roles=(("pred", "table"),)))
_reg(Tool("filterfalse", "iter", (1, 1),
          lambda S, F, P, V: a.filterfalse(F.get("pred"), S[0]),
          lambda S, F, P, V: itertools.filterfalse(F.get("pred"), S[0]),
          optional_roles=(("pred", "table"),), profiles=(I, T, 'grumpy-bool')))
_reg(Tool("islice", "iter", (1, 1),
          lambda S, F, P, V: a.islice(S[0], *P["args"]),
          lambda S, F, P, V: itertools.islice(S[0], *P["args"])))
_reg(Tool("pairwise", "iter", (1, 1),
          lambda S, F, P, V: a.pairwise(S[0]),
          lambda S, F, P, V: itertools.pairwise(S[0])))
# asynctools.any_iter over a plain (async) iterable of plain items is that iterable's iterator (it resolves awaitable
# layers, of which there are none here); as "an async iterator working on another iterator" it owes what every tool owes
_reg(Tool("any_iter", "iter", (1, 1),
          lambda S, F, P, V: a.any_iter(S[0]),
          lambda S, F, P, V: builtins.iter(S[0]),
          profiles=(I, N, "unprintable")))
_reg(Tool("starmap", "iter", (1, 1),
          lambda S, F, P, V: a.starmap(F["fn"], S[0]),
          lambda S, F, P, V: itertools.starmap(F["fn"], S[0]),
          roles=(("fn", "derive"),), profiles=("tuples",)))
_reg(Tool("takewhile", "iter", (1, 1),
          lambda S, F, P, V: a.takewhile(F["pred"], S[0]),
          lambda S, F, P, V: itertools.takewhile(F["pred"], S[0]),
          roles=(("pred", "table"),)))
_reg(Tool("tee", "iter", (1, 1),
          lambda S, F, P, V: a.tee(S[0], P["n"]),
          lambda S, F, P, V: itertools.tee(S[0], P["n"]),
          multi_out=True, streaming=False))
_reg(Tool("zip_longest", "iter", (0, 8),
          lambda S, F, P, V: a.zip_longest(*S, **_kw(fillvalue=_opt(V, "fillvalue"))),
          lambda S, F, P, V: itertools.zip_longest(*S, **_kw(fillvalue=_opt(V, "fillvalue")))))
_reg(Tool("merge", "iter", (0, 8),
          lambda S, F, P, V: a.merge(*S, key=F.get("key"), reverse=P["reverse"]),
          lambda S, F, P, V: heapq.merge(*S, key=F.get("key"), reverse=P["reverse"]),
          optional_roles=(("key", "table"),), profiles=(I, I, "grumpy-order")))

# ---- aggregations ---------------------------------------------------------

_reg(Tool("all", "agg", (1, 1),
          lambda S, F, P, V: a.all(S[0]),
          lambda S, F, P, V: builtins.all(S[0]), profiles=(I, T, 'grumpy-bool')))
_reg(Tool("any", "agg", (1, 1),
          lambda S, F, P, V: a.any(S[0]),
          lambda S, F, P, V: builtins.any(S[0]), profiles=(I, T, 'grumpy-bool')))
_reg(Tool("sum", "agg", (1, 1),
          lambda S, F, P, V: a.sum(S[0], *_positional_opt(V, "start")),
          lambda S, F, P, V: builtins.sum(S[0], *_positional_opt(V, "start")),
          profiles=(I, N, "lists", "inexact", 'grumpy-add', "aw-add", "infinite")))
_reg(Tool("min", "agg", (1, 1),
          lambda S, F, P, V: a.min(S[0], **_kw(key=F.get("key", _ABSENT), default=_opt(V, "default"))),
          lambda S, F, P, V: builtins.min(S[0], **_kw(key=F.get("key", _ABSENT), default=_opt(V, "default"))),
          optional_roles=(("key", "table"),), profiles=(I, N, "unorderable", 'grumpy-order', "ltonly", "ltpure", "partial", "infinite")))
_reg(Tool("max", "agg", (1, 1),
          lambda S, F, P, V: a.max(S[0], **_kw(key=F.get("key", _ABSENT), default=_opt(V, "default"))),
          lambda S, F, P, V: builtins.max(S[0], **_kw(key=F.get("key", _ABSENT), default=_opt(V, "default"))),
          optional_roles=(("key", "table"),), profiles=(I, N, "unorderable", 'grumpy-order', "ltonly", "ltpure", "partial", "infinite")))
_reg(Tool("list", "agg", (0, 1),
          lambda S, F, P, V: a.list(*S[:1]),
          lambda S, F, P, V: builtins.list(*S[:1]), profiles=(I, N), streaming=False))
_reg(Tool("tuple", "agg", (0, 1),
          lambda S, F, P, V: a.tuple(*S[:1]),
          lambda S, F, P, V: builtins.tuple(*S[:1]), profiles=(I, N), streaming=False))
_reg(Tool("set", "agg", (0, 1),
          lambda S, F, P, V: a.set(*S[:1]),
          lambda S, F, P, V: builtins.set(*S[:1]), profiles=(I, N, "unhashable", 'grumpy-hash'),
          streaming=False))
_reg(Tool("dict", "agg", (0, 1),
          lambda S, F, P, V: a.dict(*S[:1], **V.get("kw", {})),
          lambda S, F, P, V: builtins.dict(*S[:1], **V.get("kw", {})), profiles=("pairs",),
          streaming=False))
_reg(Tool("sorted", "agg", (1, 1),
          lambda S, F, P, V: a.sorted(S[0], key=F.get("key"), reverse=P["reverse"]),
          lambda S, F, P, V: builtins.sorted(S[0], key=F.get("key"), reverse=P["reverse"]),
          optional_roles=(("key", "table"),), profiles=(I, N, "unorderable", 'grumpy-order', "ltonly", "ltpure", "partial", "infinite"),
          streaming=False))
_reg(Tool("reduce", "agg", (1, 1),
          lambda S, F, P, V: a.reduce(F["fn"], S[0], *_positional_opt(V, "initial")),
          lambda S, F, P, V: functools.reduce(F["fn"], S[0], *_positional_opt(V, "initial")),
          roles=(("fn", "derive"),), profiles=(I,)))
# "none": not a callable at all - functools.reduce only notices when it has to combine two values
_BUILTIN_OPS = {"add": operator.add, "max": builtins.max, "concat": operator.concat, "none": None}
# the reduction is a C-level callable: no double can log its calls, but what it does to the items is observable
_reg(Tool("reduce_builtin", "agg", (1, 1),
          lambda S, F, P, V: a.reduce(_BUILTIN_OPS[P["op"]], S[0], *_positional_opt(V, "initial")),
          lambda S, F, P, V: functools.reduce(_BUILTIN_OPS[P["op"]], S[0], *_positional_opt(V, "initial")),
          profiles=(N, N, 'grumpy-add', "lists", 'grumpy-order')))
_reg(Tool("nlargest", "agg", (1, 1),
          lambda S, F, P, V: a.nlargest(S[0], P["n"], key=F.get("key")),
          lambda S, F, P, V: heapq.nlargest(P["n"], S[0], key=F.get("key")),
          optional_roles=(("key", "table"),), profiles=(I, N, 'grumpy-order', "unorderable1", "ltpure"), window=None))
_reg(Tool("nsmallest", "agg", (1, 1),
          lambda S, F, P, V: a.nsmallest(S[0], P["n"], key=F.get("key")),
          lambda S, F, P, V: heapq.nsmallest(P["n"], S[0], key=F.get("key")),
          optional_roles=(("key", "table"),), profiles=(I, N, 'grumpy-order', "unorderable1", "ltpure"), window=None))

ITER_TOOLS = [t.name for t in TOOLS.values() if t.kind == "iter"]
AGG_TOOLS = [t.name for t in TOOLS.values() if t.kind == "agg"]
