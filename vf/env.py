"""Locate the repository under test and make sure it is imported from there.

``VERIF_REPO`` (default ``/repo``) is put FIRST on ``sys.path`` so that the
working tree – not an installed copy – is what every check exercises.
"""
import os
import sys

VERIF_DIR = os.path.dirname(os.path.dirname(os.path.abspath(__file__)))
REPO = os.path.abspath(os.environ.get("VERIF_REPO", "/repo"))
GUARD = "ASYNCSTDLIB_VERIF"


def setup() -> None:
    while REPO in sys.path:
        sys.path.remove(REPO)
    sys.path.insert(0, REPO)
    deps = os.path.join(VERIF_DIR, ".deps")
    if os.path.isdir(deps) and deps not in sys.path:
        sys.path.append(deps)
    os.environ.setdefault(GUARD, "1")
    import asyncstdlib  # noqa: F401

    got = os.path.dirname(os.path.dirname(os.path.abspath(asyncstdlib.__file__)))
    if got != REPO:
        raise RuntimeError(f"asyncstdlib imported from {got}, expected {REPO}")


def seed() -> int:
    try:
        return int(os.environ.get("VERIF_SEED", "1"))
    except ValueError:
        return 1
