"""Instrumented doubles: sources, callables, context managers.

All doubles write to ``ctx.log`` using one event vocabulary shared by the
asynchronous side (library under test) and the synchronous side (stdlib
reference):

  ("pull", src) ("item", src, sig) ("end", src) ("repull", src) ("fault", src)
  ("close", src)                         -- async side only
  ("call", fn, argsigs) ("cfault", fn)
"""
import functools
import types

from .values import sig
from .driver import make_exc

ASYNC_FLAVOURS = ("agen", "aclass", "aclass_noclose", "aplain", "agenlike", "aeager", "aeagerstop", "aproxy", "areiter", "alateclose", "agencoro", "aclass_awaitable", "aclass_cm")
SYNC_FLAVOURS = ("list", "seq", "iter", "tuple", "tuplesub", "reiter", "sgen", "ringlist", "range", "iter_noasync", "iter_hint0", "iter_awaitable")
SRC_FLAVOURS = ASYNC_FLAVOURS + SYNC_FLAVOURS
FN_FLAVOURS = ("def", "async", "partial", "obj", "objaw", "falsyobj", "eqobj", "unhashobj", "aeqobj", "gencoro", "classaw", "defcoro", "eagercoro", "fwddef", "fwdcoro")


class SourceBase:
    """Shared bookkeeping.  ``spec`` keys: fl, susp, fault{at,exc}, csusp."""

    def __init__(self, ctx, name, items, spec=None):
        spec = spec or {}
        self.ctx = ctx
        self.name = name
        self.items = items
        self.idx = 0
        self.pulls = 0
        self.susp = spec.get("susp", 0)
        self.csusp = spec.get("csusp", False)
        self.eqsrc = spec.get("eqsrc") or False  # False | True | "unhashable"
        self.falsy = bool(spec.get("falsy"))  # a source object that is falsy although it has items (len() == backlog)
        fault = spec.get("fault")
        self.fault_at = fault["at"] if fault else None
        self.fault_exc = None
        self.transient = bool(fault and fault.get("transient"))  # the failure is a one-off: later pulls work again
        if fault:
            exc_name = fault["exc"]
            if exc_name == "IndexError" and spec.get("fl") == "seq":
                # for an object iterated through __getitem__ an IndexError IS the end of the data (the legacy
                # sequence protocol), not a failure: plan a different type for this flavour, on both sides
                exc_name = "LookupError"
            self.fault_exc = make_exc(exc_name, f"planned:{name}")
            ctx.planned[name] = self.fault_exc
        self.close_fault = None
        self.close_raised = False
        self.close_ret = spec.get("cret")
        self.cfault_open = bool(spec.get("cfault_open"))  # a failed teardown leaves the source open and productive
        if spec.get("cfault"):
            self.close_fault = make_exc(spec["cfault"], f"planned-close:{name}")
            ctx.planned[f"{name}.aclose"] = self.close_fault
        self.exhausted = False
        self.failed = False
        self.close_calls = 0
        self.closed = False
        self.running = False
        self.overlap = False
        self.pulls_after_done = 0

    def __vsig__(self):
        return ("src", self.name)

    def __eq__(self, other):
        # spec "eqsrc": sources with VALUE equality (like dataclass cursors): distinct sources compare equal
        if self.eqsrc and isinstance(other, SourceBase):
            return True
        return self is other

    def __hash__(self):
        if self.eqsrc == "unhashable":
            # __eq__ without __hash__ (every plain @dataclass): the source cannot go into a set or a dict
            raise TypeError(f"unhashable type: '{type(self).__name__}'")
        return 0 if self.eqsrc else id(self) >> 4

    def __bool__(self):
        return not self.falsy

    # one pull, shared by all flavours; returns (kind, value)
    def _begin(self):
        ctx, name = self.ctx, self.name
        if self.exhausted or self.failed or self.closed:
            self.pulls_after_done += 1
            ctx.ev("repull", name)
            return False
        self.pulls += 1
        ctx.ev("pull", name)
        return True

    def _finish(self):
        ctx, name = self.ctx, self.name
        if self.fault_at is not None and self.pulls == self.fault_at:
            if not self.transient:
                self.failed = True
            ctx.ev("fault", name)
            raise self.fault_exc
        if self.idx >= len(self.items):
            self.exhausted = True
            ctx.ev("end", name)
            return False, None
        item = self.items[self.idx]
        ctx.ev("item", name, self.item_sigs[self.idx] if self.item_sigs else sig(item))
        self.idx += 1
        return True, item

    item_sigs = None

    @property
    def served(self):
        return self.idx


class SyncSource(SourceBase):
    """One-shot synchronous iterator (reference side, and 'iter' flavour)."""

    def __iter__(self):
        return self

    def __next__(self):
        if not self._begin():
            raise StopIteration
        ok, item = self._finish()
        if not ok:
            raise StopIteration
        return item

    @property
    def released(self):
        return True

    obj = property(lambda self: self)


class SyncNoAsyncSource(SyncSource):
    """a regular iterator that says explicitly that it is NOT asynchronously iterable (``__aiter__ = None``, the way
    ``__hash__ = None`` marks something unhashable): looking the attribute up finds something, calling it fails"""

    __aiter__ = None
    __anext__ = None


class SyncHintSource(SyncSource):
    """a regular iterator whose ``__length_hint__`` under-estimates (0 although items are left): a hint is an estimate,
    "it may be larger or smaller than the actual size", and says nothing about where the data end"""

    def __length_hint__(self):
        return 0


class SyncAwaitableSource(SyncSource):
    """a regular iterator that is ALSO awaitable (a lazy result set: ``await rs`` would load everything): handed to a
    tool as an iterable it is iterated, never awaited"""

    def __await__(self):
        from .values import AwaitedDataError

        raise AwaitedDataError(("source", self.name))
        yield  # pragma: no cover


class SyncGenSource(SourceBase):
    """A real synchronous generator of the caller: tools may advance it, closing it is the caller's business
    (``closed_by_tool`` records a GeneratorExit while the double still holds a reference)."""

    def __init__(self, ctx, name, items, spec=None):
        super().__init__(ctx, name, items, spec)
        self.closed_by_tool = False
        self.gen = self._run()

    def _run(self):
        try:
            while True:
                if not self._begin():
                    return
                ok, item = self._finish()
                if not ok:
                    return
                yield item
        except GeneratorExit:
            self.closed_by_tool = True
            self.ctx.ev("close", self.name)
            raise

    released = True
    obj = property(lambda self: self.gen)


class SeqSource(SourceBase):
    """Old-style sequence: only ``__getitem__`` with ints from 0."""

    def __getitem__(self, i):
        if not self._begin():
            raise IndexError(i)
        ok, item = self._finish()
        if not ok:
            raise IndexError(i)
        return item

    released = True
    obj = property(lambda self: self)


class ListSource(SourceBase):
    """A plain list (cannot log, cannot fail)."""

    released = True

    def __init__(self, ctx, name, items, spec=None):
        super().__init__(ctx, name, items, spec)
        self._obj = list(items)

    @property
    def obj(self):
        return self._obj


class RangeSource(ListSource):
    """a real ``range`` of as many numbers as the case has items for this source (it knows its length, is immutable and
    re-iterable: everything a short-cut could wish for - and still just an iterable)"""

    def __init__(self, ctx, name, items, spec=None):
        super().__init__(ctx, name, list(range(len(items))), spec)
        self._obj = range(len(items))


class MyTuple(tuple):
    """a tuple subclass (like a namedtuple): tuple(x) must give a PLAIN tuple"""


class RingList(list):
    """a list subclass whose LOGICAL order differs from its raw storage (a ring buffer with a head offset):
    only ``__iter__`` (and indexing) know the order; ``list.copy`` / raw storage access see the rotated data"""

    def __init__(self, items):
        items = list(items)
        self.head = len(items) // 2
        super().__init__(items[len(items) - self.head:] + items[:len(items) - self.head])

    def __iter__(self):
        raw = list.__iter__(self)
        data = list(raw)
        return iter(data[self.head:] + data[:self.head])

    def __getitem__(self, index):
        return list(self)[index]


class RingListSource(ListSource):
    def __init__(self, ctx, name, items, spec=None):
        super().__init__(ctx, name, items, spec)
        self._obj = RingList(items)


class TupleSource(ListSource):
    def __init__(self, ctx, name, items, spec=None):
        super().__init__(ctx, name, items, spec)
        self._obj = tuple(items)


class TupleSubSource(ListSource):
    def __init__(self, ctx, name, items, spec=None):
        super().__init__(ctx, name, items, spec)
        self._obj = MyTuple(items)


class AClassSource(SourceBase):
    """Class based async iterator with ``aclose`` (cancellation safe: state is
    only changed after the last suspension of a pull)."""

    def __aiter__(self):
        return self

    async def __anext__(self):
        if self.running:
            self.overlap = True
        self.running = True
        try:
            if not self._begin():
                raise StopAsyncIteration
            for _ in range(self.susp):
                await self.ctx.suspend((self.name, "pull"))
            ok, item = self._finish()
            if not ok:
                raise StopAsyncIteration
            return item
        finally:
            self.running = False

    async def aclose(self):
        self.close_calls += 1
        first = not (self.closed or self.exhausted or self.failed)
        self.ctx.ev("close", self.name)
        if first and self.csusp:
            try:
                await self.ctx.suspend((self.name, "cleanup"))
            except BaseException:  # noqa: B902
                # the cleanup itself was cancelled: whoever closed this source has done what could be done
                self.closed = True
                raise
        if self.cfault_open and self.close_fault is not None and not self.close_raised:
            self.close_raised = True
            self.ctx.ev("close-fault", self.name)
            raise self.close_fault
        self.closed = True
        if self.close_fault is None and self.close_ret is not None:
            return self.close_ret  # whatever a source's aclose() returns is nobody's business
        if self.close_fault is not None and not self.close_raised:
            # the source's own cleanup fails (once): that error belongs to the user, too
            self.close_raised = True
            self.ctx.ev("close-fault", self.name)
            raise self.close_fault

    @property
    def released(self):
        # a class-based iterator that raised is NOT thereby finished: it still has to be closed
        return self.closed or self.exhausted

    obj = property(lambda self: self)


class _Proxy:
    """delegating proxy around an iterator: only the iteration protocol is spelled out, everything else
    (aclose included) is reached through ``__getattr__``, so it is invisible to static attribute lookup"""

    def __init__(self, inner):
        self.__dict__["_inner"] = inner

    def __aiter__(self):
        return self

    def __anext__(self):
        return self.__dict__["_inner"].__anext__()

    def __getattr__(self, name):
        return getattr(self.__dict__["_inner"], name)

    def __vsig__(self):
        return self.__dict__["_inner"].__vsig__()


class AProxySource(AClassSource):
    """class based async iterator with aclose, handed to the tool behind a delegating proxy"""

    def __init__(self, ctx, name, items, spec=None):
        super().__init__(ctx, name, items, spec)
        self._proxy = _Proxy(self)

    obj = property(lambda self: self._proxy)


class AGenCoroSource(AClassSource):
    """class based async iterator whose ``__anext__`` and ``aclose`` are generator-based coroutines
    (``types.coroutine``): what they return is awaitable but has no ``__await__`` and is no ``Awaitable`` instance"""

    @types.coroutine
    def __anext__(self):
        return (yield from AClassSource.__anext__(self).__await__())

    @types.coroutine
    def aclose(self):
        return (yield from AClassSource.aclose(self).__await__())


class AAwaitableSource(AClassSource):
    """a class based async iterator that is also awaitable"""

    def __await__(self):
        from .values import AwaitedDataError

        raise AwaitedDataError(("source", self.name))
        yield  # pragma: no cover


class ACMSource(AClassSource):
    """a class based async iterator that ALSO is an async context manager (a connection / file-like object) - handed
    over as an iterator, never entered: whoever owns it closes it with ``aclose``, the manager protocol is not used"""

    async def __aenter__(self):
        self.ctx.ev("wrong-protocol", self.name, "aenter")
        return self

    async def __aexit__(self, *exc):
        self.ctx.ev("wrong-protocol", self.name, "aexit")
        return False


class ALateCloseSource(AClassSource):
    """a stream that is opened by its first pull: only from then on does it have an ``aclose`` at all"""

    @property
    def aclose(self):
        if not self.pulls:
            raise AttributeError("aclose")  # nothing has been opened yet
        return functools.partial(AClassSource.aclose, self)

    @property
    def released(self):
        return self.closed or self.exhausted or not self.pulls


class _AIterable:
    """async ITERABLE (not an iterator): every ``__aiter__`` call is logged and opens a cursor of its own.
    The first cursor is the double itself; any further one is an independent cursor over the same items."""

    def __init__(self, owner):
        self.owner = owner

    def __aiter__(self):
        return self.owner._open(AClassSource)

    def __vsig__(self):
        return self.owner.__vsig__()


class _Iterable:
    """synchronous counterpart of _AIterable"""

    def __init__(self, owner):
        self.owner = owner

    def __iter__(self):
        return self.owner._open(SyncSource)

    def __vsig__(self):
        return self.owner.__vsig__()


class _ReiterMixin:
    def _init_reiter(self):
        self.opens = 0
        self.extra_cursors = []
        self._iterable = _AIterable(self) if isinstance(self, AClassSource) else _Iterable(self)

    def _open(self, cursor_class):
        self.ctx.ev("open", self.name)
        self.opens += 1
        if self.opens == 1:
            return self
        extra = cursor_class(self.ctx, f"{self.name}+{self.opens - 1}", list(self.items), {})
        self.extra_cursors.append(extra)
        return extra

    obj = property(lambda self: self._iterable)


class AReiterSource(_ReiterMixin, AClassSource):
    def __init__(self, ctx, name, items, spec=None):
        super().__init__(ctx, name, items, spec)
        self._init_reiter()

    @property
    def released(self):
        mine = self.closed or self.exhausted or not self.pulls
        return mine and all(c.released or not c.pulls for c in self.extra_cursors)


class ReiterSource(_ReiterMixin, SyncSource):
    def __init__(self, ctx, name, items, spec=None):
        super().__init__(ctx, name, items, spec)
        self._init_reiter()


class _Ready:
    """awaitable carrying an outcome that was computed when __anext__ was CALLED"""

    __slots__ = ("src", "item", "stop")

    def __init__(self, src, item, stop):
        self.src, self.item, self.stop = src, item, stop

    def __await__(self):
        for _ in range(self.src.susp):
            yield from self.src.ctx.suspend((self.src.name, "pull")).__await__()
        if self.stop:
            raise StopAsyncIteration
        return self.item


class AEagerSource(AClassSource):
    """``__anext__`` is a plain method that consumes the next item at once, when it is called, and returns
    an awaitable for it: calling ``__anext__`` ahead of time (before awaiting) is an observable read-ahead."""

    def __anext__(self):
        if not self._begin():
            return _Ready(self, None, True)
        ok, item = self._finish()
        return _Ready(self, item, not ok)


class AEagerStopSource(AEagerSource):
    """like AEagerSource, but the end is reported by the plain ``__anext__`` method itself (it raises
    StopAsyncIteration when CALLED instead of returning an awaitable that raises): fine for ``async for``"""

    def __anext__(self):
        if not self._begin():
            raise StopAsyncIteration
        ok, item = self._finish()
        if not ok:
            raise StopAsyncIteration
        return _Ready(self, item, False)


class AGenLikeSource(AClassSource):
    """Class based iterator offering the whole generator interface (aclose, asend, athrow) without being
    an async generator.  The library has no business sending or throwing into a source it was given:
    every such call is logged ("asend" / "athrow" events)."""

    async def asend(self, value):
        self.ctx.ev("asend", self.name)
        return await self.__anext__()

    async def athrow(self, typ, val=None, tb=None):
        self.ctx.ev("athrow", self.name, getattr(typ, "__name__", type(typ).__name__))
        self.failed = True
        raise typ if isinstance(typ, BaseException) else typ()


class AClassNoCloseSource(SourceBase):
    """Class based async iterator WITHOUT aclose/asend/athrow: never owed a close."""

    def __aiter__(self):
        return self

    async def __anext__(self):
        if self.running:
            self.overlap = True
        self.running = True
        try:
            if not self._begin():
                raise StopAsyncIteration
            for _ in range(self.susp):
                await self.ctx.suspend((self.name, "pull"))
            ok, item = self._finish()
            if not ok:
                raise StopAsyncIteration
            return item
        finally:
            self.running = False

    released = True
    obj = property(lambda self: self)


class AReiterNoCloseSource(_ReiterMixin, AClassNoCloseSource):
    """async ITERABLE whose cursors cannot be closed (no aclose): still one cursor per ``__aiter__`` call"""

    def __init__(self, ctx, name, items, spec=None):
        super().__init__(ctx, name, items, spec)
        self._init_reiter()
        outer = self

        class _NoCloseIterable:
            def __aiter__(self_inner):  # noqa: N805
                return outer._open(AClassNoCloseSource)

            def __vsig__(self_inner):  # noqa: N805
                return outer.__vsig__()

        self._iterable = _NoCloseIterable()

    @property
    def released(self):
        return True


class _PullAwaitable:
    """Plain awaitable object (neither coroutine nor generator object)."""

    __slots__ = ("src",)

    def __init__(self, src):
        self.src = src

    def __await__(self):
        src = self.src
        if src.running:
            src.overlap = True
        src.running = True
        try:
            if not src._begin():
                raise StopAsyncIteration
            for _ in range(src.susp):
                yield from src.ctx.suspend((src.name, "pull")).__await__()
            ok, item = src._finish()
            if not ok:
                raise StopAsyncIteration
            return item
        finally:
            src.running = False


class APlainSource(AClassSource):
    """Class based async iterator whose ``__anext__`` is a plain ``def`` returning a
    custom awaitable object (not a coroutine)."""

    def __anext__(self):
        return _PullAwaitable(self)


class AgenSource(SourceBase):
    """A real async generator (has aclose/asend/athrow, is finalised by GC)."""

    def __init__(self, ctx, name, items, spec=None):
        super().__init__(ctx, name, items, spec)
        self.gen = self._run()
        self.cleanup_ran = False

    async def _run(self):
        ctx, name = self.ctx, self.name
        try:
            while True:
                self.pulls += 1
                ctx.ev("pull", name)
                for _ in range(self.susp):
                    await ctx.suspend((name, "pull"))
                ok, item = self._finish()
                if not ok:
                    return
                yield item
        except GeneratorExit:
            self.close_calls += 1
            ctx.ev("close", name)
            if self.csusp:
                await ctx.suspend((name, "cleanup"))
            self.closed = True
            raise
        finally:
            self.cleanup_ran = True

    @property
    def released(self):
        return self.gen.ag_frame is None

    @property
    def obj(self):
        return self.gen


_SRC_CLASSES = {
    "agen": AgenSource,
    "aclass": AClassSource,
    "aclass_noclose": AClassNoCloseSource,
    "aplain": APlainSource,
    "agenlike": AGenLikeSource,
    "aeager": AEagerSource,
    "aeagerstop": AEagerStopSource,
    "aproxy": AProxySource,
    "alateclose": ALateCloseSource,
    "agencoro": AGenCoroSource,
    "areiter": AReiterSource,
    "areiter_noclose": AReiterNoCloseSource,
    "reiter": ReiterSource,
    "list": ListSource,
    "tuple": TupleSource,
    "ringlist": RingListSource,
    "range": RangeSource,
    "tuplesub": TupleSubSource,
    "seq": SeqSource,
    "sgen": SyncGenSource,
    "iter_noasync": SyncNoAsyncSource,
    "iter_awaitable": SyncAwaitableSource,
    "aclass_awaitable": AAwaitableSource,
    "aclass_cm": ACMSource,
    "iter_hint0": SyncHintSource,
    "iter": SyncSource,
}


def make_source(ctx, name, items, spec, side):
    """Build the double for one side: 'a' = library under test (flavour from
    the spec), 's' = stdlib reference (always the logging sync iterator)."""
    if side == "s":
        if (spec or {}).get("fl") == "list" and (spec or {}).get("mutable"):
            return ListSource(ctx, name, items, spec)  # the consumer mutates this very list while iterating
        if (spec or {}).get("fl") in ("tuple", "tuplesub", "ringlist", "range") and not (spec or {}).get("fault"):
            # what the stdlib does with a tuple (subclass) argument depends on its type
            return _SRC_CLASSES[spec["fl"]](ctx, name, items, spec)
        if (spec or {}).get("fl") in ("areiter", "reiter"):
            return ReiterSource(ctx, name, items, spec)  # logs when the tool asks for an iterator ("open")
        return SyncSource(ctx, name, items, spec)
    return _SRC_CLASSES[(spec or {}).get("fl", "agen")](ctx, name, items, spec)


# --------------------------------------------------------------------------
# callables


def argkey(args):
    """Deterministic small integer derived from the arguments (uids of Items)."""
    total = 0
    for a in args:
        total = total * 7 + _argkey1(a)
    return total


def _argkey1(a):
    from .values import Item

    if isinstance(a, Item):
        return a.uid if isinstance(a.uid, int) else (a.key * 3 + 1)
    if isinstance(a, (tuple, list)):
        return argkey(a) + len(a)
    if isinstance(a, bool):
        return int(a)
    if isinstance(a, int):
        return a
    return len(repr(a))


def forward_call(target):
    """closures of ONE factory share their code object; whether a call gives a value or an awaitable depends on target"""
    def call(*args):
        return target(*args)

    return call


class Fn:
    """Callable double.  ``spec`` keys: kind (table|derive|ident), table (list of
    live values), fl, susp, fault{at,exc}.  ``side`` 's' is always a plain def."""

    def __init__(self, ctx, name, spec, table, side):
        self.ctx = ctx
        self.name = name
        self.kind = spec.get("kind", "table")
        self.spec = spec
        self.table = table
        self.calls = 0
        self.susp = spec.get("susp", 0) if side == "a" else 0
        fault = spec.get("fault")
        self.fault_at = fault["at"] if fault else None
        self.fault_exc = None
        if fault:
            self.fault_exc = make_exc(fault["exc"], f"planned:{name}", side)
            ctx.planned[name] = self.fault_exc
        self.fl = spec.get("fl", "def") if side == "a" else "def"
        self.seen_args = []
        self.invoked = 0   # how often the callable object itself was called (its awaitable may never be awaited)
        self.callable = self._build()

    def _result(self, args):
        from .values import Item

        ctx = self.ctx
        self.calls += 1
        ctx.ev("call", self.name, tuple(sig(a) for a in args))
        self.seen_args.append(args)
        if self.fault_at is not None and self.calls == self.fault_at:
            ctx.ev("cfault", self.name)
            raise self.fault_exc
        grow = self.spec.get("grows_source")
        if grow and self.calls == grow["at"]:
            # the callable changes the list the tool is reading from (a key that registers what it has seen, a
            # worker appending follow-up jobs): a list iterator - and so the tool - sees the list as it is NOW
            target = getattr(getattr(ctx, "built", None), "srcs", [None])[0]
            lst = getattr(target, "obj", None)
            if isinstance(lst, list):
                lst.append(Item(grow.get("key", 0), ("grown", self.name, self.calls)))
                ctx.ev("mutated", 0, "append-by-callable")
        if self.kind == "table":
            return self.table[argkey(args) % len(self.table)]
        if self.kind == "bycall":
            # an impure callable: what it returns depends on how often it was called, not on its argument
            return self.table[(self.calls * 5 + 1) % len(self.table)]
        if self.kind == "late-aw":
            # first call: a plain value (so the callable counts as synchronous); some later calls
            # return an awaitable object AS DATA: it must be passed on like any other value
            from .values import AwaitableItem

            if self.calls >= 2 and (self.calls + argkey(args)) % 2 == 0:
                return AwaitableItem(("late", self.name, self.calls))
        if self.kind == "ident":
            return args[0]
        if self.kind == "typeof":
            # a CLASS as result: the class of an awaitable item has an __await__ attribute without being awaitable
            return type(args[-1])
        key = 0
        for a in args:
            if isinstance(a, Item):
                key += a.key
        return Item(key, ("f", self.name) + tuple(sig(a) for a in args))

    def _build(self):
        fl = self.fl
        if fl == "def":

            def plain(*args):
                self.invoked += 1
                return self._result(args)

            return plain

        async def body(*args):
            for _ in range(self.susp):
                await self.ctx.suspend((self.name, "call"))
            return self._result(args)

        def coro(*args):
            self.invoked += 1
            return body(*args)

        def plain_result(*args):
            self.invoked += 1
            return self._result(args)

        if fl == "fwddef":
            return forward_call(plain_result)
        if fl == "fwdcoro":
            # the SAME code object as "fwddef" (closures of one factory): what a callable returns is a matter of the
            # call, not of the function's code
            return forward_call(coro)
        if fl == "defcoro":
            return coro  # a plain ``def`` (or lambda) that returns a coroutine: not a coroutine FUNCTION
        if fl == "eagercoro":
            # ... that does its actual work (and fails, if it is going to) when it is CALLED; the coroutine it
            # returns only delivers the result
            async def deliver(result):
                for _ in range(self.susp):
                    await self.ctx.suspend((self.name, "call"))
                return result

            def eager(*args):
                self.invoked += 1
                return deliver(self._result(args))

            return eager
        if fl == "async":
            async def counted(*args):
                self.invoked += 1
                return await body(*args)

            return counted
        if fl == "partial":

            async def coro2(_extra, *args):
                return await coro(*args)

            return functools.partial(coro2, "extra")
        if fl == "classaw":
            outer4 = self

            class AwaitableCall:
                """the callable is a CLASS: calling it makes an instance, and the instance is the awaitable"""

                __slots__ = ("args",)

                def __init__(self_inner, *args):  # noqa: N805
                    outer4.invoked += 1
                    self_inner.args = args

                def __await__(self_inner):  # noqa: N805
                    return body(*self_inner.args).__await__()

            return AwaitableCall
        if fl == "gencoro":
            import types

            @types.coroutine
            def gen_body(*args):
                # a generator-based coroutine: awaitable for ``await`` and inspect.isawaitable, although it is
                # not an instance of collections.abc.Awaitable
                for _ in range(self.susp):
                    yield from self.ctx.suspend((self.name, "call")).__await__()
                return self._result(args)

            def gencoro(*args):
                self.invoked += 1
                return gen_body(*args)

            return gencoro
        if fl == "falsyobj":
            outer2 = self

            class FalsyCallable:
                """a callable object that is falsy (e.g. a container of handlers that is empty)"""

                def __bool__(self_inner):  # noqa: N805
                    return False

                def __call__(self_inner, *args):  # noqa: N805
                    outer2.invoked += 1
                    return outer2._result(args)

            return FalsyCallable()
        if fl in ("eqobj", "unhashobj", "aeqobj"):
            outer3 = self

            class ValueCallable:
                """a callable object with VALUE equality (like a dataclass with __call__): all instances compare
                equal and hash alike ("eqobj", "aeqobj": async __call__) or are unhashable ("unhashobj")"""

                def __eq__(self_inner, other):  # noqa: N805
                    return type(other).__name__ == "ValueCallable"

                if fl == "unhashobj":
                    __hash__ = None
                else:
                    def __hash__(self_inner):  # noqa: N805
                        return 7

                if fl == "aeqobj":
                    async def __call__(self_inner, *args):  # noqa: N805
                        outer3.invoked += 1
                        return await body(*args)
                else:
                    def __call__(self_inner, *args):  # noqa: N805
                        outer3.invoked += 1
                        return outer3._result(args)

            return ValueCallable()
        if fl == "objaw":

            class _Aw:
                """awaitable object that is neither a coroutine nor a generator"""

                __slots__ = ("inner",)

                def __init__(self, inner):
                    self.inner = inner

                def __await__(self):
                    return self.inner.__await__()

            class CallObjAw:
                def __call__(self_inner, *args):  # noqa: N805
                    return _Aw(coro(*args))

            return CallObjAw()
        if fl == "obj":
            outer = self

            class CallObj:
                def __call__(self_inner, *args):  # noqa: N805
                    return coro(*args)

                def __repr__(self_inner):  # noqa: N805
                    return f"<CallObj {outer.name}>"

            return CallObj()
        raise ValueError(fl)


class CallSource(SourceBase):
    """0-ary callable producing successive items (for ``iter(callable, sentinel)``);
    after the items it keeps returning ``tail`` (a value equal to the sentinel)."""

    def __init__(self, ctx, name, items, spec, side, tail):
        super().__init__(ctx, name, items, spec)
        self.tail = tail
        self.fl = spec.get("fl", "def") if side == "a" else "def"
        self.susp = spec.get("susp", 0) if side == "a" else 0
        self.callable = self._build()

    def _produce(self):
        ctx, name = self.ctx, self.name
        self.pulls += 1
        ctx.ev("pull", name)
        if self.fault_at is not None and self.pulls == self.fault_at:
            self.failed = True
            ctx.ev("fault", name)
            raise self.fault_exc
        if self.idx >= len(self.items):
            ctx.ev("item", name, sig(self.tail))
            return self.tail
        item = self.items[self.idx]
        self.idx += 1
        ctx.ev("item", name, sig(item))
        return item

    def _build(self):
        fl = self.fl
        if fl == "def":
            return lambda: self._produce()

        async def coro():
            for _ in range(self.susp):
                await self.ctx.suspend((self.name, "call"))
            return self._produce()

        if fl == "async":
            return coro
        if fl == "partial":

            async def coro2(_extra):
                return await coro()

            return functools.partial(coro2, "extra")

        if fl in ("iterobj", "aiterobj"):
            outer = self

            class CallableCollection:
                """a callable object that ALSO is iterable (a queue with ``__call__`` = "get next"): iter(v, sentinel)
                only asks for callable"""

                if fl == "iterobj":
                    def __iter__(self_inner):  # noqa: N805
                        return iter(())

                    def __call__(self_inner):  # noqa: N805
                        return outer._produce()
                else:
                    def __aiter__(self_inner):  # noqa: N805
                        raise AssertionError("iter(callable, sentinel) must call, not iterate")

                    def __call__(self_inner):  # noqa: N805
                        return coro()

            return CallableCollection()

        class CallObj:
            def __call__(self_inner):  # noqa: N805
                return coro()

        return CallObj()

    released = True


class ForwardingAsyncGenerator:
    """a complete asynchronous generator that is not a NATIVE one (a tracing / forwarding wrapper, a compiled
    generator): the whole protocol, but no ``ag_frame`` / ``ag_running`` and not an instance of the generator type"""

    def __init__(self, agen):
        self._agen = agen

    def __aiter__(self):
        return self

    def __anext__(self):
        return self._agen.__anext__()

    def asend(self, value):
        return self._agen.asend(value)

    def athrow(self, *args):
        return self._agen.athrow(*args)

    def aclose(self):
        return self._agen.aclose()


def forwarding(agen_function):
    """the generator function ``agen_function`` with its generators wrapped into ForwardingAsyncGenerator"""
    def make(*args, **kwargs):
        return ForwardingAsyncGenerator(agen_function(*args, **kwargs))

    return make
