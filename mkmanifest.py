"""Regenerate MANIFEST.json from the table below (keeps it valid at all times)."""
import json, os
HERE = os.path.dirname(os.path.abspath(__file__))
CHECKS = {
 "C01": ("exploration", "differential PBT (Hypothesis) vs itertools/heapq/builtins, identity-sensitive items",
         "Generated inputs/parameters per iterator tool compared item-by-item (object identity via uids) and ending-by-ending with the stdlib namesake; finds tie-order, off-by-one, strictness and fill bugs; no absence proof. Also: native containers (range, str, bytes, views, sets, deques, arrays, str/tuple subclasses, the builtins' one-shot iterators) as sources through 37 tool/parameter combinations; two instances alive at once, advanced alternately; sources re-iterated (aiter again), mutated while read, with __aiter__ = None, under-estimating length hints, awaitable as well as iterable.",
         "CPython 3.12 stdlib is the oracle; inputs bounded (<=8 items x <=4 sources quick); no NaN/partial orders", "4/C01"),
}
CHECKS["C02"] = ("exploration", "differential PBT (Hypothesis) vs builtins/functools/heapq plus argument-mutation oracle",
  "Generated inputs (ties, empty, mixed numerics, unorderable/unhashable), list/iterator/async input, key/default/start/initial/n combinations compared with the stdlib result (identity of selected Items, exception type); every argument object must be structurally unchanged afterwards. Also: native containers as sources; parameters that are the very object of an item; callables that grow the list being read; NaN (partial orders) for sorted/min/max.",
  "CPython 3.12 stdlib is the oracle; dyadic floats (exact sums); no NaN/partial orders", "4/C02")
CHECKS["C05"] = ("exploration", "differential trace PBT: interleaved pull/call/yield event logs vs the stdlib, instrumented doubles",
  "Full interleaved event log (pulls, end-of-source detections, calls with argument identities, yields) of each asynchronous tool equals the stdlib counterpart's for generated inputs and consumer step counts; detects read-ahead, over/under-consumption and eager evaluation.",
  "equivalence = equality after deleting re-polls of already exhausted sources; CPython 3.12 evaluation order is the reference", "4/C05")
CHECKS["C06"] = ("fault_enumeration", "exhaustive single-fault injection per generated case, differential vs the stdlib under the same fault",
  "For each generated case EVERY use (pull incl. end-of-data pull, call) of every source/callable is failed in turn with a planned exception object; the asynchronous run must deliver the same items, raise that very object, and (iterator tools) show the same event log as the stdlib under the same fault.",
  "single faults only; StopIteration-family exceptions are not injected; bounded inputs", "4/C06")
CHECKS["C03"] = ("exploration", "metamorphic PBT: same case under generated sync/async flavour assignments vs the all-sync run; return-shape oracle",
  "Each generated case (optionally with one planned fault) is re-run under generated assignments of 6 iterable flavours and 5 callable flavours; items, result and exception must equal the all-synchronous run; every library callable must return an awaitable / async iterator / async context manager.",
  "baseline is the library's own all-sync run (agreement with the stdlib is C01/C02); 6 assignments per case in quick", "4/C03")
CHECKS["C04"] = ("fault_enumeration", "exhaustive close-position / single-fault / athrow enumeration per generated case; release invariant on instrumented sources; tee and groupby close histories",
  "Every generated case is expanded to all numbers of items taken before close, exhaustion, all single fault positions and consumer athrow after every prefix, in a loop with and without asyncgen hooks, with sources whose cleanup suspends; afterwards every async iterator passed in must be closed or exhausted and aclose must not raise; tee/groupby advance-close histories check 'source released iff last child done'. Also: a snapshot of the started sources at the moment a raise/exhaustion completes (before any later aclose); 600-2100 owned iterators at once; any_iter as a tool.",
  "released is observed on the doubles before any GC; raise path is judged after the owner closed the handle; bounded inputs", "4/C04")
CHECKS["C18"] = ("fault_enumeration", "exhaustive cancellation-point enumeration per generated operation on a hand-driven event loop",
  "For each generated operation (all tools/aggregations with suspending sources and callables, tee+lock, lru_cache, cached_property+lock, ExitStack, scoped_iter blocks) a Cancel object is thrown at EVERY suspension point 1..N in separate runs; that object must propagate, sources be released, locks free and balanced, exits run once with it, caches consistent and usable. Also: sources whose aclose() suspends (cancellation inside a cleanup) and, on top of that, another source whose aclose() fails.",
  "one cancellation per run (a failing cleanup may come on top); suspension points are those of user awaitables (C17 shows there are no others)", "4/C18")
CHECKS["C20"] = ("exploration", "weak-reference retention PBT over long lazily generated streams",
  "For every streaming tool and single-pass aggregation, groupby and tee (with generated child lag / early close patterns) the number of live source items, counted through weak references at every 10th consumer step, stays below window + 3*sources + 3 for stream lengths 50-400 (thorough: to 2000): the bound is independent of the length. Also: sized lazy datasets as sources, windows of 255-300 with streams of 1500-2500 items.",
  "CPython reference counting + gc.collect(); documented accumulators excluded", "4/C20")
CHECKS["C07"] = ("exploration", "model-based history PBT: generated borrow/close/tool/drop histories vs a shared synchronous iterator",
  "Generated operation histories (next, asend, close, close via iter, hand to any of 26 tools, drop+gc, borrow/re-borrow) over four kinds of underlying iterator; after every operation the underlying is not closed and every item obtained anywhere is exactly next(model); closed lineages yield nothing; the owner finally drains exactly the rest.",
  "handle state after a tool used it is 'unknown' (either stop or next(model) accepted); athrow through a handle not generated", "4/C07")
CHECKS["C08"] = ("fault_enumeration", "generated scoped_iter block programs vs a shared synchronous iterator; every cancellation point and generated raise positions",
  "Generated nested scoped_iter blocks (depth 1-3) applying any of 26 tools to the scoped handles; items must be next(model), the underlying is never closed inside and exactly once after the outermost exit, inner handles die with their scope only; exit by fall-through, by an exception at a generated position, and by cancellation at EVERY suspension point of the run. Also: re-iterable, proxied and falsy underlying objects, a failing underlying aclose (still exactly one call), entering the used-up context again, sources that cannot be closed at all (in-block semantics only).",
  "iterators without aclose (documented neutral context) and athrow through the handle are not generated", "4/C08")
CHECKS["C09"] = ("exploration", "schedule-driven PBT on a harness-owned event loop: generated configurations x generated schedules; exhaustive schedule enumeration for small configurations",
  "Each tee child runs in its own task; the schedule (which ready task advances) is Hypothesis data; invariants on order, exactly-once fetching, no overlapping source access under a lock, no deadlock, weak-reference retention and 'source closed iff all children done' are checked after EVERY scheduler step; early closes from j=0 and one cancellation at any suspension are generated; all schedules of the 2-children configurations are enumerated in quick, 3-children in thorough. Also: the exact set of live items by index (not only their number), children indexed late, sources without aclose, the lock shared with readers outside the tee.",
  "cooperative tasks only; granularity = suspension points of user awaitables (complete for this library, see C17)", "4/C09")
CHECKS["C10"] = ("exploration", "model-based history PBT vs functools.lru_cache and an explicit LRU model (for cache_discard)",
  "Generated call/clear/info/discard histories (<= 40 operations) per configuration (maxsize incl. None/negative/0/default, typed, bare decorator, cache(), function/method/classmethod/staticmethod on two instances) are mirrored on functools.lru_cache; results, exception types, invocation log, cache_info and cache_parameters must agree after every operation; a small LRU model, itself cross-checked against functools on every discard-free prefix, is the oracle after cache_discard. Also: one decorator object for several functions, re-entrant calls (a body clearing its cache / calling the cache again), hash-colliding call patterns, arguments whose __class__ lies, callable objects and eager plain defs as wrapped callables, unhashable instances.",
  "functools._make_key defines pattern identity; sequential awaits only; re-entrant same-key calls only for bounded caches (functools' unbounded wrapper overwrites the result, its bounded one - like the library - keeps the first)", "4/C10")
CHECKS["C16"] = ("exploration", "model-based history PBT vs itertools.groupby (advance groupby / advance any previously returned group)",
  "Generated items (equal-yet-distinguishable keys), key absent/sync/async, four source flavours and histories of up to 15 advance operations on the groupby and on any previously returned group handle are mirrored on itertools.groupby; key, item identity or stop must agree after every operation. Also: keys whose comparison fails (the history goes on), aiter() again on groupby and groups, groups that outlive the groupby object, key failures during the skip scan (via C06).",
  "reflexive key equality; CPython 3.12 itertools.groupby is the oracle", "4/C16")
CHECKS["C13"] = ("exploration", "exhaustive enumeration of the 864-program table, differential vs contextlib.asynccontextmanager; Hypothesis variations on top",
  "All 3x12x3x8 generator programs x block outcomes of the quantifier (each with and without suspensions inside the generator) are run through contextmanager and through contextlib.asynccontextmanager: bound value, generator event log and outcome class (block's object / planned other / suppressed / protocol RuntimeError) must agree; the GeneratorExit rows are compared with an independent model of the documented deviation. Also: generator functions given as partial / callable object / bound method / forwarding (non-native) generators, coroutine functions as factory arguments, GeneratorExit subclasses, re-use of a used-up manager.",
  "CPython 3.12 contextlib is the oracle; exceptions compared by role, not message", "4/C13")
CHECKS["C14"] = ("exploration", "differential program PBT vs genuinely nested async-with statements (complete for <= 2 entries) plus run-once histories; hang watchdog",
  "ExitStack programs (7 entry kinds x 5-6 behaviours x block outcome; every program with <= 2 entries enumerated, 3-4 entries sampled) are compared with the same entries written as nested with statements: order of exits, the exception object each receives, callback arguments, final outcome. Generated register/aclose/pop_all/leave/unwind-again histories check that every registered exit runs exactly once overall. Non-termination is detected by a per-case watchdog with isolated re-run. Also: LIFO order by registration time across pop_all, exits that close their own stack, managers that register on the stack while they are entered, stacks pushed onto stacks, awaitable context values, callbacks without arguments.",
  "__context__ chains are not compared; exits never re-raise an older exception of the chain", "4/C14")
CHECKS["C11"] = ("exploration", "schedule-driven PBT (generated task programs x schedules, one cancellation) plus exhaustive schedules for 2 tasks x 2 calls; existential LRU-model oracle",
  "Tasks issuing calls / cache_clear / cache_discard over 1-3 keys against a suspending wrapped function run under generated schedules with an optional failing invocation and one cancellation; currsize <= maxsize after every scheduler step, values belong to their key, hits+misses == calls and misses == invocations since the last clear, and a sequential probe history must be explainable by the C10 LRU model from some subset of the successfully completed keys. All schedules of 2 tasks x 2 calls are enumerated.",
  "cooperative tasks; wrapped function tolerates overlap; probe oracle is the sequential model of C10", "4/C11")
CHECKS["C12"] = ("exploration", "model-based sequential histories plus schedule-driven PBT (exhaustive schedules for 2-3 tasks) with lock doubles, deletion, failure and cancellation",
  "Sequential await / take-placeholder / del / failing-getter histories on two instances against an absent|value model (getter runs iff absent, identity-stable value); concurrent awaiters under generated and enumerated schedules: every awaiter gets a returned object; with a lock exactly one run returns, runs never overlap, all share the value; locks free and balanced after cancelling the holder; later accesses served from the cache. Also: None / non-comparable / awaitable values, falsy and frozen instances, rebound __dict__, partial and bound-method getters, the attribute used as a set member.",
  "with a deleting task only recomputation is asserted; without a lock the documented multiple runs are accepted", "4/C12")
CHECKS["C15"] = ("exploration", "schedule-driven PBT of decorated calls (generated and exhaustive schedules), per-call pairing invariants plus differential vs contextlib decorators",
  "Coroutine functions decorated with contextmanager-made managers and ContextDecorator subclasses are called sequentially and concurrently under generated schedules (all schedules for 2 tasks in small configurations) with suspensions in enter/body/exit, raising bodies, suppression and one cancellation; per call: one enter, body, one exit in order, the exit receives the body's exception object, result/exception semantics, a distinct generator per call; outcomes equal those of contextlib.asynccontextmanager / AsyncContextDecorator under the same schedule. Also: managers with a state-dependent _recreate_cm, forwarding generators, one manager object decorating a function several times.",
  "class managers are written concurrency-safe (documented precondition); CPython 3.12 contextlib is the reference", "4/C15")
CHECKS["C17"] = ("exploration", "hand-driven token protocol (send and throw at every suspension), zero-suspension runs for synchronous arguments, asyncio loop traps in-process and in a fresh subprocess",
  "Every operation is driven with send/throw by hand: only tokens of the doubles may reach the loop, each double gets back exactly its reply, an exception thrown at ANY suspension reaches the awaitable suspended there, operations complete; all-synchronous arguments give zero suspensions for every tool, aggregation and adapter; asyncio's loop accessors / Lock / sleep / Future are replaced by recording traps during all runs and before import in a subprocess battery of generated operations. Also: one lru_cache history whose segments run without a loop, under fresh asyncio.run()s and in another thread; the asynctools adapters under a running asyncio loop; sources whose __anext__/aclose are types.coroutine functions.",
  "'every event loop' approximated by a hand-driven loop and the no-asyncio subprocess; trio/asyncio themselves are not run", "4/C17")
CHECKS["C19"] = ("exploration", "exhaustive shape x length x steps grid for any_iter / await_each (identity and await-order oracle) plus Hypothesis cases for apply and sync",
  "All combinations of outer {plain, coroutine, awaitable object} x {list, iterator, async iterator} x item kinds {plain, coroutine, awaitable object, suspending} x lengths 0-6 x consumer steps are enumerated: items are the plain list's objects, awaitable k is awaited only after item k was requested; apply is compared with f(*values, **values) including await order; sync wrappers are called repeatedly with mixed plain / awaitable / raising results: never raise when called, same result or exception object when awaited, coroutine functions returned unchanged. Also: plain generator objects and concurrent.futures.Future as data, dual-protocol and observed containers (nothing is iterated before the first request), async generator functions for sync(), the source behind an awaitable outer is closed with the adapter.",
  "awaitables awaited at most once; identity comparison of items", "4/C19")
REASONS = {}
props = [json.loads(l)["id"] for l in open(os.path.join(HERE, "properties.jsonl"))]
checks = []
for pid in props:
    if pid not in CHECKS:
        continue
    level, tech, text, note, ref = CHECKS[pid]
    checks.append({
        "property_id": pid,
        "quick_cmd": f"./check {pid} quick",
        "thorough_cmd": f"./check {pid} thorough",
        "evidence_file": f"/verif/evidence/{pid}.json",
        "replay_cmd_template": f"./check {pid} --replay {{path}}",
        "engine": "vf",
        "level_claimed": {"category": level, "text": text, "design_ref": f"DESIGN.md section {ref}"},
        "level_note": note,
        "technique": tech + ("; the thorough tier adds one coverage-guided campaign (atheris/libFuzzer bytes -> hypothesis "
                              "fuzz_one_input -> same case strategy and same oracle, asyncstdlib instrumented) per "
                              "Hypothesis-driven shard, violations shrunk by Hypothesis"),
    })
manifest = {
 "version": 1,
 "setup_cmd": "./setup.sh",
 "hooks": {"guard": "ASYNCSTDLIB_VERIF", "enable": "no hooks are needed: checks import /repo's working tree directly (VERIF_REPO, default /repo) and observe it through instrumented doubles; the guard variable is exported by ./check but read nowhere in /repo",
           "baseline_off_cmd": "cd /repo && env -u ASYNCSTDLIB_VERIF /venv/bin/python -m pytest -ra -q -p no:cacheprovider --timeout=900 --continue-on-collection-errors unittests",
           "source_commits": [], "add_only": True},
 "engines": [{"name": "vf", "path": "/verif/vf", "serves_properties": sorted(CHECKS),
              "kind_free_text": "Hypothesis 6.168 property-based testing: differential / metamorphic / model-based (stateful) checks over JSON case descriptors, hand-driven event loop owning schedules and cancellation points, 16-way sharded; thorough tier: additional atheris (libFuzzer) coverage-guided campaigns over the same strategies and oracles (vf/fuzz.py)"}],
 "checks": checks,
 "not_applicable": [{"property_id": p, "reason": REASONS.get(p, "check under construction in this session; not claimed until it is registered here")} for p in props if p not in CHECKS],
 "notes": "All checks: ./check <id> quick|thorough [--replay file]; exit 0 held / 1 VIOLATION / 2 harness error. Defects repaired in /repo are listed in known_findings.json (fixed:).",
}
json.dump(manifest, open(os.path.join(HERE, "MANIFEST.json"), "w"), indent=1)
print("checks:", [c["property_id"] for c in checks])
