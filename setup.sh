#!/bin/bash
# Offline setup: make sure hypothesis is importable by /venv/bin/python.
cd "$(dirname "$0")" || exit 2
PY=${VERIF_PYTHON:-/venv/bin/python}
if "$PY" -c "import hypothesis" 2>/dev/null; then
    echo "hypothesis already importable"
else
    mkdir -p .deps
    PIP_NO_INDEX=1 "$PY" -m pip install --no-index --find-links /opt/veriftools/wheels \
        --target .deps hypothesis || exit 2
fi
PYTHONPATH=.deps "$PY" -c "import hypothesis; print('hypothesis', hypothesis.__version__)"
# atheris (coverage-guided campaigns of the thorough tier) is optional: without it those campaigns are skipped
if ! PYTHONPATH=.deps "$PY" -c "import atheris" 2>/dev/null; then
    mkdir -p .deps
    PIP_NO_INDEX=1 "$PY" -m pip install --no-index --find-links /opt/veriftools/wheels \
        --target .deps atheris >/dev/null 2>&1 || echo "atheris not installable: coverage-guided campaigns will be skipped"
fi
PYTHONPATH=.deps "$PY" -c "import atheris; print('atheris ok')" 2>/dev/null || true
